//! Counting global allocator. DESIGN.md §3.6.

use std::alloc::{GlobalAlloc, Layout, System};
use std::cell::Cell;

pub struct Counting;

thread_local! {
    static ON: Cell<bool> = const { Cell::new(false) };
    static BYTES: Cell<usize> = const { Cell::new(0) };
    static LARGEST: Cell<usize> = const { Cell::new(0) };
    static CALLS: Cell<usize> = const { Cell::new(0) };
    /// while measuring: requests beyond this running total are refused (null), which makes the requesting code
    /// abort via handle_alloc_error - a runaway decode ends as SIGABRT (reported by the crash handler with the
    /// pending case) instead of taking the machine down
    static LIMIT: Cell<usize> = const { Cell::new(usize::MAX) };
}

#[inline]
fn over_limit(sz: usize) -> bool {
    ON.try_with(|on| on.get()).unwrap_or(false)
        && BYTES.try_with(|b| b.get().saturating_add(sz)).unwrap_or(0) > LIMIT.try_with(|l| l.get()).unwrap_or(usize::MAX)
}

#[inline]
fn note(sz: usize) {
    let _ = ON.try_with(|on| {
        if on.get() {
            let _ = BYTES.try_with(|b| b.set(b.get().saturating_add(sz)));
            let _ = LARGEST.try_with(|l| {
                if sz > l.get() {
                    l.set(sz)
                }
            });
            let _ = CALLS.try_with(|c| c.set(c.get() + 1));
        }
    });
}

unsafe impl GlobalAlloc for Counting {
    unsafe fn alloc(&self, l: Layout) -> *mut u8 {
        if over_limit(l.size()) {
            return std::ptr::null_mut();
        }
        note(l.size());
        System.alloc(l)
    }
    unsafe fn dealloc(&self, p: *mut u8, l: Layout) {
        System.dealloc(p, l)
    }
    unsafe fn alloc_zeroed(&self, l: Layout) -> *mut u8 {
        if over_limit(l.size()) {
            return std::ptr::null_mut();
        }
        note(l.size());
        System.alloc_zeroed(l)
    }
    unsafe fn realloc(&self, p: *mut u8, l: Layout, new: usize) -> *mut u8 {
        if over_limit(new) {
            return std::ptr::null_mut();
        }
        note(new);
        System.realloc(p, l, new)
    }
}

#[derive(Clone, Copy, Debug, Default)]
pub struct Measure {
    pub bytes: usize,
    pub largest: usize,
    pub calls: usize,
}

/// Run `f` and report what this thread requested from the allocator meanwhile.
pub fn measure<R>(f: impl FnOnce() -> R) -> (R, Measure) {
    BYTES.with(|b| b.set(0));
    LARGEST.with(|b| b.set(0));
    CALLS.with(|b| b.set(0));
    ON.with(|o| o.set(true));
    let r = f();
    ON.with(|o| o.set(false));
    let m = Measure {
        bytes: BYTES.with(|b| b.get()),
        largest: LARGEST.with(|b| b.get()),
        calls: CALLS.with(|b| b.get()),
    };
    (r, m)
}

/// `measure` with a ceiling on the running total of requested bytes (see `LIMIT`).
pub fn measure_limited<R>(limit: usize, f: impl FnOnce() -> R) -> (R, Measure) {
    LIMIT.with(|l| l.set(limit));
    let r = measure(f);
    LIMIT.with(|l| l.set(usize::MAX));
    r
}
