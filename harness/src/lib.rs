pub mod alloc;
pub mod corpus;
pub mod dynmap;
pub mod dynshape;
pub mod fuzzsupport;
pub mod gen;
pub mod guard;
pub mod iodoubles;
pub mod mutate;
pub mod refcobs;
pub mod refcodec;
pub mod record;
pub mod record_value;
pub mod refcrc;
pub mod runner;
pub mod schematree;
pub mod props;

#[global_allocator]
static GLOBAL: alloc::Counting = alloc::Counting;
