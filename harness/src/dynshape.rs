//! The serde data model as data: `Shape` (a type) and `Value` (an inhabitant), with
//! hand-written serde adapters that call exactly the serde method of each kind.
//! DESIGN.md §3.1.

use serde::de::{self, DeserializeSeed, EnumAccess, MapAccess, SeqAccess, VariantAccess, Visitor};
use serde::ser::{
    SerializeMap, SerializeSeq, SerializeStruct, SerializeStructVariant, SerializeTuple,
    SerializeTupleStruct, SerializeTupleVariant,
};
use serde::{Deserialize, Deserializer, Serialize, Serializer};
use std::cell::{Cell, RefCell};
use std::collections::HashMap;
use std::fmt;

/// A `'static` name (serde wants `&'static str` for type/field/variant names).
#[derive(Clone, Copy, PartialEq, Eq, Hash, PartialOrd, Ord)]
pub struct Name(pub &'static str);

impl fmt::Debug for Name {
    fn fmt(&self, f: &mut fmt::Formatter<'_>) -> fmt::Result {
        write!(f, "{:?}", self.0)
    }
}

thread_local! {
    static INTERN: RefCell<HashMap<String, &'static str>> = RefCell::new(HashMap::new());
    static FIELDSETS: RefCell<HashMap<Vec<&'static str>, &'static [&'static str]>> = RefCell::new(HashMap::new());
}

pub fn intern(s: &str) -> Name {
    for n in NAME_POOL.iter() {
        if *n == s {
            return Name(n);
        }
    }
    INTERN.with(|m| {
        let mut m = m.borrow_mut();
        if let Some(v) = m.get(s) {
            return Name(v);
        }
        let leaked: &'static str = Box::leak(s.to_string().into_boxed_str());
        m.insert(s.to_string(), leaked);
        Name(leaked)
    })
}

fn static_names(v: Vec<&'static str>) -> &'static [&'static str] {
    FIELDSETS.with(|m| {
        let mut m = m.borrow_mut();
        if let Some(s) = m.get(&v) {
            return *s;
        }
        let leaked: &'static [&'static str] = Box::leak(v.clone().into_boxed_slice());
        m.insert(v, leaked);
        leaked
    })
}

impl Serialize for Name {
    fn serialize<S: Serializer>(&self, s: S) -> Result<S::Ok, S::Error> {
        s.serialize_str(self.0)
    }
}
impl<'de> Deserialize<'de> for Name {
    fn deserialize<D: Deserializer<'de>>(d: D) -> Result<Self, D::Error> {
        let s = String::deserialize(d)?;
        Ok(intern(&s))
    }
}

/// Names used by generators. Deliberately contains letters that coincide with schema-hash tag
/// bytes (k q e m G O g), an empty name, multi-byte names and a long one.
pub const NAME_POOL: &[&str] = &[
    "a", "b", "c", "x", "y", "z", "k", "q", "e", "m", "G", "O", "g", "qq", "qqq", "id", "len",
    "data", "kind", "name", "value", "Foo", "Bar", "Baz", "Alpha", "Beta", "Gamma", "Ok", "Err",
    "None", "Some", "start", "end", "héllo", "名前", "", "field_with_a_rather_long_name_0123456789",
    "f0", "f1", "f2", "f3", "f4", "f5", "f6", "f7", "V0", "V1", "V2", "V3", "V4", "V5", "V6", "V7",
    "A", "B", "Q", "K", "kb", "Kb", "KB", "foo", "FOO", "Id", "ID", "it's", "a b", "µ", "Ω", "r#type", "type", "r#",
];

#[derive(Clone, Debug, PartialEq, Eq, Hash, Serialize, Deserialize)]
pub enum Shape {
    Bool,
    I8,
    I16,
    I32,
    I64,
    I128,
    U8,
    U16,
    U32,
    U64,
    U128,
    F32,
    F64,
    Char,
    /// borrowed `&str`: deserialize_str, only visit_borrowed_str accepted
    Str,
    /// owned `String`: deserialize_string
    String,
    /// borrowed `&[u8]`: deserialize_bytes, only visit_borrowed_bytes accepted
    Bytes,
    /// owned byte buffer: deserialize_byte_buf
    ByteBuf,
    Option(Box<Shape>),
    Unit,
    UnitStruct(Name),
    Newtype(Name, Box<Shape>),
    Seq(Box<Shape>),
    Tuple(Vec<Shape>),
    TupleStruct(Name, Vec<Shape>),
    Map(Box<Shape>, Box<Shape>),
    Struct(Name, Vec<(Name, Shape)>),
    Enum(Name, Vec<Variant>),
    /// serde's own `usize` impl (serialize_u64 / deserialize_u64 on this host)
    Usize,
    /// serde's own `isize` impl
    Isize,
    /// encoder only: `collect_str` of a Display impl emitting the text in pieces
    DisplayStr,
    /// encoder only: `serialize_seq(None)`
    UnsizedSeq(Box<Shape>),
    /// encoder only: `serialize_map(None)`
    UnsizedMap(Box<Shape>, Box<Shape>),
}

#[derive(Clone, Debug, PartialEq, Eq, Hash, Serialize, Deserialize)]
pub struct Variant {
    pub index: u32,
    pub name: Name,
    pub kind: VKind,
}

#[derive(Clone, Debug, PartialEq, Eq, Hash, Serialize, Deserialize)]
pub enum VKind {
    Unit,
    Newtype(Box<Shape>),
    Tuple(Vec<Shape>),
    Struct(Vec<(Name, Shape)>),
}

#[derive(Clone, Debug, PartialEq, Eq, Hash, Serialize, Deserialize)]
pub enum Value {
    Bool(bool),
    /// all unsigned integer kinds (incl. Usize)
    U(#[serde(with = "as_dec_string")] u128),
    /// all signed integer kinds (incl. Isize)
    I(#[serde(with = "as_dec_string")] i128),
    /// bit pattern
    F32(u32),
    /// bit pattern
    F64(u64),
    Char(char),
    Str(String),
    Bytes(Vec<u8>),
    None,
    Some(Box<Value>),
    Unit,
    Newtype(Box<Value>),
    /// Seq, Tuple, TupleStruct, Struct (field values in order)
    List(Vec<Value>),
    Map(Vec<(Value, Value)>),
    /// position in the shape's variant list (not the wire index); payload is
    /// Unit | the newtype's inner value | List
    Variant(usize, Box<Value>),
    /// DisplayStr pieces
    Pieces(Vec<String>),
}

/// 128-bit integers as decimal strings (serde_json cannot hold them as numbers)
mod as_dec_string {
    use serde::{Deserialize, Deserializer, Serializer};
    use std::fmt::Display;
    use std::str::FromStr;
    pub fn serialize<T: Display, S: Serializer>(v: &T, s: S) -> Result<S::Ok, S::Error> {
        s.collect_str(v)
    }
    pub fn deserialize<'de, T: FromStr, D: Deserializer<'de>>(d: D) -> Result<T, D::Error> {
        let s = String::deserialize(d)?;
        s.parse().map_err(|_| serde::de::Error::custom("bad integer"))
    }
}

impl Shape {
    pub fn is_composite(&self) -> bool {
        !matches!(
            self,
            Shape::Bool
                | Shape::I8
                | Shape::I16
                | Shape::I32
                | Shape::I64
                | Shape::I128
                | Shape::U8
                | Shape::U16
                | Shape::U32
                | Shape::U64
                | Shape::U128
                | Shape::F32
                | Shape::F64
                | Shape::Char
                | Shape::Unit
                | Shape::Usize
                | Shape::Isize
        )
    }

    /// True when every value of this shape occupies zero bytes on the wire.
    pub fn zero_width(&self) -> bool {
        match self {
            Shape::Unit | Shape::UnitStruct(_) => true,
            Shape::Newtype(_, s) => s.zero_width(),
            Shape::Tuple(v) | Shape::TupleStruct(_, v) => v.iter().all(|s| s.zero_width()),
            Shape::Struct(_, v) => v.iter().all(|(_, s)| s.zero_width()),
            _ => false,
        }
    }

    pub fn encoder_only(&self) -> bool {
        match self {
            Shape::DisplayStr | Shape::UnsizedSeq(_) | Shape::UnsizedMap(..) => true,
            Shape::Option(s) | Shape::Newtype(_, s) | Shape::Seq(s) => s.encoder_only(),
            Shape::Tuple(v) | Shape::TupleStruct(_, v) => v.iter().any(|s| s.encoder_only()),
            Shape::Map(k, v) => k.encoder_only() || v.encoder_only(),
            Shape::Struct(_, v) => v.iter().any(|(_, s)| s.encoder_only()),
            Shape::Enum(_, vs) => vs.iter().any(|v| match &v.kind {
                VKind::Unit => false,
                VKind::Newtype(s) => s.encoder_only(),
                VKind::Tuple(v) => v.iter().any(|s| s.encoder_only()),
                VKind::Struct(v) => v.iter().any(|(_, s)| s.encoder_only()),
            }),
            _ => false,
        }
    }

    pub fn node_count(&self) -> usize {
        1 + match self {
            Shape::Option(s) | Shape::Newtype(_, s) | Shape::Seq(s) | Shape::UnsizedSeq(s) => {
                s.node_count()
            }
            Shape::Tuple(v) | Shape::TupleStruct(_, v) => v.iter().map(|s| s.node_count()).sum(),
            Shape::Map(k, v) | Shape::UnsizedMap(k, v) => k.node_count() + v.node_count(),
            Shape::Struct(_, v) => v.iter().map(|(_, s)| s.node_count()).sum(),
            Shape::Enum(_, vs) => vs
                .iter()
                .map(|v| match &v.kind {
                    VKind::Unit => 1,
                    VKind::Newtype(s) => 1 + s.node_count(),
                    VKind::Tuple(v) => 1 + v.iter().map(|s| s.node_count()).sum::<usize>(),
                    VKind::Struct(v) => 1 + v.iter().map(|(_, s)| s.node_count()).sum::<usize>(),
                })
                .sum(),
            _ => 0,
        }
    }

    pub fn kind_name(&self) -> &'static str {
        match self {
            Shape::Bool => "bool",
            Shape::I8 => "i8",
            Shape::I16 => "i16",
            Shape::I32 => "i32",
            Shape::I64 => "i64",
            Shape::I128 => "i128",
            Shape::U8 => "u8",
            Shape::U16 => "u16",
            Shape::U32 => "u32",
            Shape::U64 => "u64",
            Shape::U128 => "u128",
            Shape::F32 => "f32",
            Shape::F64 => "f64",
            Shape::Char => "char",
            Shape::Str => "str",
            Shape::String => "string",
            Shape::Bytes => "bytes",
            Shape::ByteBuf => "bytebuf",
            Shape::Option(_) => "option",
            Shape::Unit => "unit",
            Shape::UnitStruct(_) => "unit_struct",
            Shape::Newtype(..) => "newtype_struct",
            Shape::Seq(_) => "seq",
            Shape::Tuple(_) => "tuple",
            Shape::TupleStruct(..) => "tuple_struct",
            Shape::Map(..) => "map",
            Shape::Struct(..) => "struct",
            Shape::Enum(..) => "enum",
            Shape::Usize => "usize",
            Shape::Isize => "isize",
            Shape::DisplayStr => "display_str",
            Shape::UnsizedSeq(_) => "unsized_seq",
            Shape::UnsizedMap(..) => "unsized_map",
        }
    }

    /// Count every kind occurring in the tree (incl. variant kinds) into `f`.
    pub fn visit_kinds(&self, f: &mut dyn FnMut(&'static str)) {
        f(self.kind_name());
        match self {
            Shape::Option(s) | Shape::Newtype(_, s) | Shape::Seq(s) | Shape::UnsizedSeq(s) => {
                s.visit_kinds(f)
            }
            Shape::Tuple(v) | Shape::TupleStruct(_, v) => v.iter().for_each(|s| s.visit_kinds(f)),
            Shape::Map(k, v) | Shape::UnsizedMap(k, v) => {
                k.visit_kinds(f);
                v.visit_kinds(f)
            }
            Shape::Struct(_, v) => v.iter().for_each(|(_, s)| s.visit_kinds(f)),
            Shape::Enum(_, vs) => {
                for v in vs {
                    match &v.kind {
                        VKind::Unit => f("unit_variant"),
                        VKind::Newtype(s) => {
                            f("newtype_variant");
                            s.visit_kinds(f)
                        }
                        VKind::Tuple(v) => {
                            f("tuple_variant");
                            v.iter().for_each(|s| s.visit_kinds(f))
                        }
                        VKind::Struct(v) => {
                            f("struct_variant");
                            v.iter().for_each(|(_, s)| s.visit_kinds(f))
                        }
                    }
                }
            }
            _ => {}
        }
    }
}

// ---------------------------------------------------------------------------------------
// Serialize adapter
// ---------------------------------------------------------------------------------------

pub struct Typed<'a>(pub &'a Shape, pub &'a Value);

struct PiecesDisplay<'a>(&'a [String]);
impl fmt::Display for PiecesDisplay<'_> {
    fn fmt(&self, f: &mut fmt::Formatter<'_>) -> fmt::Result {
        use std::fmt::Write as _;
        // the text reaches the formatter through every route a Display impl can take:
        // write_str, write_char, and nested formatting with and without padding
        for (i, p) in self.0.iter().enumerate() {
            match i % 4 {
                0 => f.write_str(p)?,
                1 => {
                    for c in p.chars() {
                        f.write_char(c)?;
                    }
                }
                2 => write!(f, "{}", p)?,
                _ => {
                    // `{:c>0}`: a fill spec that never pads (width 0) but takes the padding path
                    let mut cs = p.chars();
                    if let (Some(c), None) = (cs.next(), cs.next()) {
                        write!(f, "{:>0}", c)?;
                    } else {
                        write!(f, "{:>0}", p)?;
                    }
                }
            }
        }
        Ok(())
    }
}

fn mismatch(shape: &Shape, value: &Value) -> ! {
    panic!("harness bug: value {:?} does not inhabit shape {:?}", value, shape)
}

impl Serialize for Typed<'_> {
    fn serialize<S: Serializer>(&self, s: S) -> Result<S::Ok, S::Error> {
        let (shape, value) = (self.0, self.1);
        match (shape, value) {
            (Shape::Bool, Value::Bool(b)) => s.serialize_bool(*b),
            (Shape::I8, Value::I(v)) => s.serialize_i8(*v as i8),
            (Shape::I16, Value::I(v)) => s.serialize_i16(*v as i16),
            (Shape::I32, Value::I(v)) => s.serialize_i32(*v as i32),
            (Shape::I64, Value::I(v)) => s.serialize_i64(*v as i64),
            (Shape::I128, Value::I(v)) => s.serialize_i128(*v),
            (Shape::U8, Value::U(v)) => s.serialize_u8(*v as u8),
            (Shape::U16, Value::U(v)) => s.serialize_u16(*v as u16),
            (Shape::U32, Value::U(v)) => s.serialize_u32(*v as u32),
            (Shape::U64, Value::U(v)) => s.serialize_u64(*v as u64),
            (Shape::U128, Value::U(v)) => s.serialize_u128(*v),
            (Shape::Usize, Value::U(v)) => (*v as usize).serialize(s),
            (Shape::Isize, Value::I(v)) => (*v as isize).serialize(s),
            (Shape::F32, Value::F32(b)) => s.serialize_f32(f32::from_bits(*b)),
            (Shape::F64, Value::F64(b)) => s.serialize_f64(f64::from_bits(*b)),
            (Shape::Char, Value::Char(c)) => s.serialize_char(*c),
            (Shape::Str | Shape::String, Value::Str(v)) => s.serialize_str(v),
            (Shape::Bytes | Shape::ByteBuf, Value::Bytes(v)) => s.serialize_bytes(v),
            (Shape::Option(_), Value::None) => s.serialize_none(),
            (Shape::Option(inner), Value::Some(v)) => s.serialize_some(&Typed(inner, v)),
            (Shape::Unit, Value::Unit) => s.serialize_unit(),
            (Shape::UnitStruct(n), Value::Unit) => s.serialize_unit_struct(n.0),
            (Shape::Newtype(n, inner), Value::Newtype(v)) => {
                s.serialize_newtype_struct(n.0, &Typed(inner, v))
            }
            (Shape::Seq(elem), Value::List(vs)) => {
                if vs.len() % 3 == 2 {
                    // exact-size iterator through collect_seq, as std collections do
                    return s.collect_seq(vs.iter().map(|v| Typed(elem, v)));
                }
                let mut q = s.serialize_seq(Some(vs.len()))?;
                for v in vs {
                    q.serialize_element(&Typed(elem, v))?;
                }
                q.end()
            }
            (Shape::UnsizedSeq(elem), Value::List(vs)) => {
                if vs.len() % 2 == 1 {
                    // an iterator without an exact size hint, handed to collect_seq: serde's
                    // contract makes this a sequence of unknown length as well
                    return s.collect_seq(vs.iter().filter(|_| true).map(|v| Typed(elem, v)));
                }
                let mut q = s.serialize_seq(None)?;
                for v in vs {
                    q.serialize_element(&Typed(elem, v))?;
                }
                q.end()
            }
            (Shape::Tuple(shapes), Value::List(vs)) if shapes.len() == vs.len() => {
                let mut q = s.serialize_tuple(vs.len())?;
                for (sh, v) in shapes.iter().zip(vs) {
                    q.serialize_element(&Typed(sh, v))?;
                }
                q.end()
            }
            (Shape::TupleStruct(n, shapes), Value::List(vs)) if shapes.len() == vs.len() => {
                let mut q = s.serialize_tuple_struct(n.0, vs.len())?;
                for (sh, v) in shapes.iter().zip(vs) {
                    q.serialize_field(&Typed(sh, v))?;
                }
                q.end()
            }
            (Shape::Map(k, v), Value::Map(pairs)) => {
                let mut q = s.serialize_map(Some(pairs.len()))?;
                for (kv, vv) in pairs {
                    q.serialize_key(&Typed(k, kv))?;
                    q.serialize_value(&Typed(v, vv))?;
                }
                q.end()
            }
            (Shape::UnsizedMap(k, v), Value::Map(pairs)) => {
                if pairs.len() % 2 == 1 {
                    return s.collect_map(pairs.iter().filter(|_| true).map(|(a, b)| (Typed(k, a), Typed(v, b))));
                }
                let mut q = s.serialize_map(None)?;
                for (kv, vv) in pairs {
                    q.serialize_key(&Typed(k, kv))?;
                    q.serialize_value(&Typed(v, vv))?;
                }
                q.end()
            }
            (Shape::Struct(n, fields), Value::List(vs)) if fields.len() == vs.len() => {
                let mut q = s.serialize_struct(n.0, vs.len())?;
                for ((fname, sh), v) in fields.iter().zip(vs) {
                    q.serialize_field(fname.0, &Typed(sh, v))?;
                }
                q.end()
            }
            (Shape::Enum(n, variants), Value::Variant(pos, payload)) => {
                let var = &variants[*pos];
                match (&var.kind, &**payload) {
                    (VKind::Unit, Value::Unit) => {
                        s.serialize_unit_variant(n.0, var.index, var.name.0)
                    }
                    (VKind::Newtype(inner), v) => {
                        s.serialize_newtype_variant(n.0, var.index, var.name.0, &Typed(inner, v))
                    }
                    (VKind::Tuple(shapes), Value::List(vs)) if shapes.len() == vs.len() => {
                        let mut q =
                            s.serialize_tuple_variant(n.0, var.index, var.name.0, vs.len())?;
                        for (sh, v) in shapes.iter().zip(vs) {
                            q.serialize_field(&Typed(sh, v))?;
                        }
                        q.end()
                    }
                    (VKind::Struct(fields), Value::List(vs)) if fields.len() == vs.len() => {
                        let mut q =
                            s.serialize_struct_variant(n.0, var.index, var.name.0, vs.len())?;
                        for ((fname, sh), v) in fields.iter().zip(vs) {
                            q.serialize_field(fname.0, &Typed(sh, v))?;
                        }
                        q.end()
                    }
                    _ => mismatch(shape, value),
                }
            }
            (Shape::DisplayStr, Value::Pieces(p)) => s.collect_str(&PiecesDisplay(p)),
            _ => mismatch(shape, value),
        }
    }
}

// ---------------------------------------------------------------------------------------
// Deserialize adapter
// ---------------------------------------------------------------------------------------

/// What a decode observed besides the value.
#[derive(Default, Clone, Debug)]
pub struct DecodeLog {
    /// (pointer, length) of every borrowed str / bytes handed to a visitor, in order
    pub borrows: Vec<(usize, usize)>,
    /// set when the harness refused to loop over a huge claimed count of zero-width elements
    pub skipped_zero_width: bool,
    /// size hints seen by sequence/map visitors
    pub hints: Vec<Option<usize>>,
}

thread_local! {
    static CUR_SHAPE: RefCell<Option<Shape>> = RefCell::new(None);
    static LOG: RefCell<DecodeLog> = RefCell::new(DecodeLog::default());
    static ZW_BUDGET: Cell<u64> = Cell::new(0);
}

pub const ZERO_WIDTH_LOOP_LIMIT: u64 = 1 << 16;

/// Run `f` with `shape` installed as the type that `Dyn: Deserialize` stands for.
pub fn with_shape<R>(shape: &Shape, f: impl FnOnce() -> R) -> (R, DecodeLog) {
    let prev = CUR_SHAPE.with(|c| c.borrow_mut().replace(shape.clone()));
    let prev_log = LOG.with(|l| std::mem::take(&mut *l.borrow_mut()));
    ZW_BUDGET.with(|b| b.set(0));
    let r = f();
    let log = LOG.with(|l| std::mem::replace(&mut *l.borrow_mut(), prev_log));
    CUR_SHAPE.with(|c| *c.borrow_mut() = prev);
    (r, log)
}

/// Clear the per-thread decode log (for callers that make several decodes inside one with_shape).
pub fn reset_log() {
    LOG.with(|l| *l.borrow_mut() = DecodeLog::default());
    ZW_BUDGET.with(|b| b.set(0));
}

/// Take the per-thread decode log accumulated since the last reset.
pub fn take_log() -> DecodeLog {
    LOG.with(|l| std::mem::take(&mut *l.borrow_mut()))
}

/// A value of the thread's current shape. Implements `Deserialize` for every lifetime, so it
/// can stand for `T` in `from_bytes::<T>`, `from_io::<T, _>`, `feed::<T>`, ...
#[derive(Debug, Clone, PartialEq)]
pub struct Dyn(pub Value);

impl<'de> Deserialize<'de> for Dyn {
    fn deserialize<D: Deserializer<'de>>(d: D) -> Result<Self, D::Error> {
        let shape = CUR_SHAPE
            .with(|c| c.borrow().clone())
            .expect("harness bug: Dyn deserialized outside with_shape");
        Seed(&shape).deserialize(d).map(Dyn)
    }
}

#[derive(Clone, Copy)]
pub struct Seed<'a>(pub &'a Shape);

macro_rules! prim_visitor {
    ($name:ident, $visit:ident, $t:ty, $conv:expr, $expect:expr) => {
        struct $name;
        impl<'de> Visitor<'de> for $name {
            type Value = Value;
            fn expecting(&self, f: &mut fmt::Formatter) -> fmt::Result {
                f.write_str($expect)
            }
            fn $visit<E: de::Error>(self, v: $t) -> Result<Value, E> {
                Ok($conv(v))
            }
        }
    };
}

prim_visitor!(BoolV, visit_bool, bool, Value::Bool, "bool");
prim_visitor!(I8V, visit_i8, i8, |v| Value::I(v as i128), "i8");
prim_visitor!(I16V, visit_i16, i16, |v| Value::I(v as i128), "i16");
prim_visitor!(I32V, visit_i32, i32, |v| Value::I(v as i128), "i32");
prim_visitor!(I64V, visit_i64, i64, |v| Value::I(v as i128), "i64");
prim_visitor!(I128V, visit_i128, i128, Value::I, "i128");
prim_visitor!(U8V, visit_u8, u8, |v| Value::U(v as u128), "u8");
prim_visitor!(U16V, visit_u16, u16, |v| Value::U(v as u128), "u16");
prim_visitor!(U32V, visit_u32, u32, |v| Value::U(v as u128), "u32");
prim_visitor!(U64V, visit_u64, u64, |v| Value::U(v as u128), "u64");
prim_visitor!(U128V, visit_u128, u128, Value::U, "u128");
prim_visitor!(F32V, visit_f32, f32, |v: f32| Value::F32(v.to_bits()), "f32");
prim_visitor!(F64V, visit_f64, f64, |v: f64| Value::F64(v.to_bits()), "f64");
prim_visitor!(CharV, visit_char, char, Value::Char, "char");

struct BorrowedStrV;
impl<'de> Visitor<'de> for BorrowedStrV {
    type Value = Value;
    fn expecting(&self, f: &mut fmt::Formatter) -> fmt::Result {
        f.write_str("a borrowed str")
    }
    fn visit_borrowed_str<E: de::Error>(self, v: &'de str) -> Result<Value, E> {
        LOG.with(|l| l.borrow_mut().borrows.push((v.as_ptr() as usize, v.len())));
        Ok(Value::Str(v.to_string()))
    }
}

struct OwnedStrV;
impl<'de> Visitor<'de> for OwnedStrV {
    type Value = Value;
    fn expecting(&self, f: &mut fmt::Formatter) -> fmt::Result {
        f.write_str("a string")
    }
    fn visit_str<E: de::Error>(self, v: &str) -> Result<Value, E> {
        Ok(Value::Str(v.to_string()))
    }
    fn visit_borrowed_str<E: de::Error>(self, v: &'de str) -> Result<Value, E> {
        LOG.with(|l| l.borrow_mut().borrows.push((v.as_ptr() as usize, v.len())));
        Ok(Value::Str(v.to_string()))
    }
    fn visit_string<E: de::Error>(self, v: String) -> Result<Value, E> {
        Ok(Value::Str(v))
    }
}

struct BorrowedBytesV;
impl<'de> Visitor<'de> for BorrowedBytesV {
    type Value = Value;
    fn expecting(&self, f: &mut fmt::Formatter) -> fmt::Result {
        f.write_str("borrowed bytes")
    }
    fn visit_borrowed_bytes<E: de::Error>(self, v: &'de [u8]) -> Result<Value, E> {
        LOG.with(|l| l.borrow_mut().borrows.push((v.as_ptr() as usize, v.len())));
        Ok(Value::Bytes(v.to_vec()))
    }
}

struct OwnedBytesV;
impl<'de> Visitor<'de> for OwnedBytesV {
    type Value = Value;
    fn expecting(&self, f: &mut fmt::Formatter) -> fmt::Result {
        f.write_str("bytes")
    }
    fn visit_bytes<E: de::Error>(self, v: &[u8]) -> Result<Value, E> {
        Ok(Value::Bytes(v.to_vec()))
    }
    fn visit_borrowed_bytes<E: de::Error>(self, v: &'de [u8]) -> Result<Value, E> {
        LOG.with(|l| l.borrow_mut().borrows.push((v.as_ptr() as usize, v.len())));
        Ok(Value::Bytes(v.to_vec()))
    }
    fn visit_byte_buf<E: de::Error>(self, v: Vec<u8>) -> Result<Value, E> {
        Ok(Value::Bytes(v))
    }
}

struct OptionV<'a>(&'a Shape);
impl<'de> Visitor<'de> for OptionV<'_> {
    type Value = Value;
    fn expecting(&self, f: &mut fmt::Formatter) -> fmt::Result {
        f.write_str("option")
    }
    fn visit_none<E: de::Error>(self) -> Result<Value, E> {
        Ok(Value::None)
    }
    fn visit_some<D: Deserializer<'de>>(self, d: D) -> Result<Value, D::Error> {
        Seed(self.0).deserialize(d).map(|v| Value::Some(Box::new(v)))
    }
}

struct UnitV;
impl<'de> Visitor<'de> for UnitV {
    type Value = Value;
    fn expecting(&self, f: &mut fmt::Formatter) -> fmt::Result {
        f.write_str("unit")
    }
    fn visit_unit<E: de::Error>(self) -> Result<Value, E> {
        Ok(Value::Unit)
    }
}

struct NewtypeV<'a>(&'a Shape);
impl<'de> Visitor<'de> for NewtypeV<'_> {
    type Value = Value;
    fn expecting(&self, f: &mut fmt::Formatter) -> fmt::Result {
        f.write_str("newtype struct")
    }
    fn visit_newtype_struct<D: Deserializer<'de>>(self, d: D) -> Result<Value, D::Error> {
        Seed(self.0).deserialize(d).map(|v| Value::Newtype(Box::new(v)))
    }
}

fn zw_tick<E: de::Error>(zero_width: bool) -> Result<(), E> {
    if zero_width {
        let n = ZW_BUDGET.with(|b| {
            let n = b.get() + 1;
            b.set(n);
            n
        });
        if n > ZERO_WIDTH_LOOP_LIMIT {
            LOG.with(|l| l.borrow_mut().skipped_zero_width = true);
            return Err(E::custom("harness-skip: zero-width element loop"));
        }
    }
    Ok(())
}

struct SeqV<'a>(&'a Shape);
impl<'de> Visitor<'de> for SeqV<'_> {
    type Value = Value;
    fn expecting(&self, f: &mut fmt::Formatter) -> fmt::Result {
        f.write_str("seq")
    }
    fn visit_seq<A: SeqAccess<'de>>(self, mut seq: A) -> Result<Value, A::Error> {
        let hint = seq.size_hint();
        LOG.with(|l| l.borrow_mut().hints.push(hint));
        let mut out = Vec::with_capacity(hint.unwrap_or(0).min(1024));
        let zw = self.0.zero_width();
        while let Some(v) = seq.next_element_seed(Seed(self.0))? {
            zw_tick::<A::Error>(zw)?;
            out.push(v);
        }
        Ok(Value::List(out))
    }
}

struct TupleV<'a>(Vec<&'a Shape>);
impl<'de> Visitor<'de> for TupleV<'_> {
    type Value = Value;
    fn expecting(&self, f: &mut fmt::Formatter) -> fmt::Result {
        write!(f, "tuple of {}", self.0.len())
    }
    fn visit_seq<A: SeqAccess<'de>>(self, mut seq: A) -> Result<Value, A::Error> {
        let mut out = Vec::with_capacity(self.0.len());
        for (i, sh) in self.0.iter().enumerate() {
            match seq.next_element_seed(Seed(sh))? {
                Some(v) => out.push(v),
                None => return Err(de::Error::invalid_length(i, &self)),
            }
        }
        Ok(Value::List(out))
    }
}

struct MapV<'a>(&'a Shape, &'a Shape);
impl<'de> Visitor<'de> for MapV<'_> {
    type Value = Value;
    fn expecting(&self, f: &mut fmt::Formatter) -> fmt::Result {
        f.write_str("map")
    }
    fn visit_map<A: MapAccess<'de>>(self, mut map: A) -> Result<Value, A::Error> {
        let hint = map.size_hint();
        LOG.with(|l| l.borrow_mut().hints.push(hint));
        let mut out = Vec::with_capacity(hint.unwrap_or(0).min(1024));
        let zw = self.0.zero_width() && self.1.zero_width();
        while let Some(k) = map.next_key_seed(Seed(self.0))? {
            zw_tick::<A::Error>(zw)?;
            let v = map.next_value_seed(Seed(self.1))?;
            out.push((k, v));
        }
        Ok(Value::Map(out))
    }
}

struct IdxSeed;
impl<'de> DeserializeSeed<'de> for IdxSeed {
    type Value = u64;
    fn deserialize<D: Deserializer<'de>>(self, d: D) -> Result<u64, D::Error> {
        struct V;
        impl<'de> Visitor<'de> for V {
            type Value = u64;
            fn expecting(&self, f: &mut fmt::Formatter) -> fmt::Result {
                f.write_str("variant index")
            }
            fn visit_u32<E: de::Error>(self, v: u32) -> Result<u64, E> {
                Ok(v as u64)
            }
            fn visit_u64<E: de::Error>(self, v: u64) -> Result<u64, E> {
                Ok(v)
            }
        }
        d.deserialize_identifier(V)
    }
}

struct EnumV<'a>(&'a [Variant]);
impl<'de> Visitor<'de> for EnumV<'_> {
    type Value = Value;
    fn expecting(&self, f: &mut fmt::Formatter) -> fmt::Result {
        f.write_str("enum")
    }
    fn visit_enum<A: EnumAccess<'de>>(self, data: A) -> Result<Value, A::Error> {
        let (idx, va) = data.variant_seed(IdxSeed)?;
        let pos = match self.0.iter().position(|v| v.index as u64 == idx) {
            Some(p) => p,
            None => {
                return Err(de::Error::invalid_value(
                    de::Unexpected::Unsigned(idx),
                    &"a known variant index",
                ))
            }
        };
        let var = &self.0[pos];
        let payload = match &var.kind {
            VKind::Unit => {
                va.unit_variant()?;
                Value::Unit
            }
            VKind::Newtype(inner) => va.newtype_variant_seed(Seed(inner))?,
            VKind::Tuple(shapes) => va.tuple_variant(shapes.len(), TupleV(shapes.iter().collect()))?,
            VKind::Struct(fields) => {
                let names = static_names(fields.iter().map(|(n, _)| n.0).collect());
                va.struct_variant(names, TupleV(fields.iter().map(|(_, s)| s).collect()))?
            }
        };
        Ok(Value::Variant(pos, Box::new(payload)))
    }
}

impl<'de> DeserializeSeed<'de> for Seed<'_> {
    type Value = Value;
    fn deserialize<D: Deserializer<'de>>(self, d: D) -> Result<Value, D::Error> {
        match self.0 {
            Shape::Bool => d.deserialize_bool(BoolV),
            Shape::I8 => d.deserialize_i8(I8V),
            Shape::I16 => d.deserialize_i16(I16V),
            Shape::I32 => d.deserialize_i32(I32V),
            Shape::I64 => d.deserialize_i64(I64V),
            Shape::I128 => d.deserialize_i128(I128V),
            Shape::U8 => d.deserialize_u8(U8V),
            Shape::U16 => d.deserialize_u16(U16V),
            Shape::U32 => d.deserialize_u32(U32V),
            Shape::U64 => d.deserialize_u64(U64V),
            Shape::U128 => d.deserialize_u128(U128V),
            Shape::Usize => usize::deserialize(d).map(|v| Value::U(v as u128)),
            Shape::Isize => isize::deserialize(d).map(|v| Value::I(v as i128)),
            Shape::F32 => d.deserialize_f32(F32V),
            Shape::F64 => d.deserialize_f64(F64V),
            Shape::Char => d.deserialize_char(CharV),
            Shape::Str => d.deserialize_str(BorrowedStrV),
            Shape::String => d.deserialize_string(OwnedStrV),
            Shape::Bytes => d.deserialize_bytes(BorrowedBytesV),
            Shape::ByteBuf => d.deserialize_byte_buf(OwnedBytesV),
            Shape::Option(inner) => d.deserialize_option(OptionV(inner)),
            Shape::Unit => d.deserialize_unit(UnitV),
            Shape::UnitStruct(n) => d.deserialize_unit_struct(n.0, UnitV),
            Shape::Newtype(n, inner) => d.deserialize_newtype_struct(n.0, NewtypeV(inner)),
            Shape::Seq(elem) => d.deserialize_seq(SeqV(elem)),
            Shape::Tuple(shapes) => d.deserialize_tuple(shapes.len(), TupleV(shapes.iter().collect())),
            Shape::TupleStruct(n, shapes) => {
                d.deserialize_tuple_struct(n.0, shapes.len(), TupleV(shapes.iter().collect()))
            }
            Shape::Map(k, v) => d.deserialize_map(MapV(k, v)),
            Shape::Struct(n, fields) => {
                let names = static_names(fields.iter().map(|(n, _)| n.0).collect());
                d.deserialize_struct(n.0, names, TupleV(fields.iter().map(|(_, s)| s).collect()))
            }
            Shape::Enum(n, variants) => {
                let names = static_names(variants.iter().map(|v| v.name.0).collect());
                d.deserialize_enum(n.0, names, EnumV(variants))
            }
            Shape::DisplayStr | Shape::UnsizedSeq(_) | Shape::UnsizedMap(..) => {
                Err(de::Error::custom("harness bug: encoder-only shape decoded"))
            }
        }
    }
}

/// Flatten the text of a DisplayStr value.
pub fn pieces_text(p: &[String]) -> String {
    p.concat()
}

/// Render a case compactly for evidence samples.
pub fn render(shape: &Shape, value: &Value) -> String {
    let s = format!("{:?} : {:?}", value, shape);
    if s.len() > 400 {
        let mut cut = 400;
        while !s.is_char_boundary(cut) {
            cut -= 1;
        }
        format!("{}…", &s[..cut])
    } else {
        s
    }
}

/// Observes the `is_human_readable()` flag a serializer / deserializer reports (compact binary
/// formats must report `false`; types like the std::net addresses choose their form by it).
#[derive(Debug, Clone, Copy, PartialEq)]
pub struct HrProbe(pub bool);
impl Serialize for HrProbe {
    fn serialize<S: Serializer>(&self, s: S) -> Result<S::Ok, S::Error> {
        let hr = s.is_human_readable();
        s.serialize_bool(hr)
    }
}
impl<'de> Deserialize<'de> for HrProbe {
    fn deserialize<D: Deserializer<'de>>(d: D) -> Result<Self, D::Error> {
        let hr = d.is_human_readable();
        let _ = bool::deserialize(d)?;
        Ok(HrProbe(hr))
    }
}
