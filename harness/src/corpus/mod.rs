//! Concrete type corpus (hand-written built-in instantiations + generated derive types).
//! DESIGN.md §3.10 / §3.11.

pub mod generated;
pub mod handwritten;

use crate::record::{record, Call};
use postcard::experimental::max_size::MaxSize;
use postcard_schema::schema::DataModelType;
use postcard_schema::Schema;
use serde::de::DeserializeOwned;
use serde::Serialize;
use serde_json::Value as Json;
use std::fmt::Debug;

/// Deterministic byte source driving value construction (bytes come from proptest, so the
/// whole value shrinks with them). Exhausted sources yield zeros.
pub struct Src<'a> {
    data: &'a [u8],
    pos: usize,
    /// restrict to values whose JSON form is unambiguous (finite floats, 128-bit ints within 64 bits)
    pub json_mode: bool,
    pub depth: u32,
}

impl<'a> Src<'a> {
    pub fn new(data: &'a [u8], json_mode: bool) -> Self {
        Src {
            data,
            pos: 0,
            json_mode,
            depth: 0,
        }
    }
    pub fn byte(&mut self) -> u8 {
        let b = self.data.get(self.pos).copied().unwrap_or(0);
        self.pos += 1;
        b
    }
    pub fn u64(&mut self) -> u64 {
        let mut v = 0u64;
        for i in 0..8 {
            v |= (self.byte() as u64) << (8 * i);
        }
        v
    }
    pub fn u128(&mut self) -> u128 {
        (self.u64() as u128) | ((self.u64() as u128) << 64)
    }
    /// monotone pick in 0..n
    pub fn below(&mut self, n: usize) -> usize {
        if n <= 1 {
            return 0;
        }
        ((self.byte() as usize) * n) >> 8
    }
    /// small length, occasionally larger
    pub fn len(&mut self, cap: usize) -> usize {
        let b = self.byte();
        let n = match b {
            0..=199 => (b % 4) as usize,
            200..=239 => (b % 16) as usize,
            240..=251 => [127usize, 128, 129, 255, 256][(b % 5) as usize],
            _ => 300,
        };
        let n = if self.depth > 2 { n.min(3) } else { n };
        n.min(cap)
    }
    /// unsigned of `bits` bits: bit-length-uniform mixed with boundaries
    pub fn unsigned(&mut self, bits: u32) -> u128 {
        let max: u128 = if bits == 128 { u128::MAX } else { (1u128 << bits) - 1 };
        let mode = self.byte();
        let raw = self.u128();
        match mode % 8 {
            0 => 0,
            1 => max,
            2 => {
                let k = (self.byte() as u32) % bits;
                let p = 1u128 << k;
                (match raw % 3 {
                    0 => p - 1,
                    1 => p,
                    _ => p.wrapping_add(1),
                }) & max
            }
            _ => {
                let len = (self.byte() as u32) % (bits + 1);
                if len == 0 {
                    0
                } else {
                    let m: u128 = if len == 128 { u128::MAX } else { (1u128 << len) - 1 };
                    (raw & m) | (1u128 << (len - 1))
                }
            }
        }
    }
    pub fn signed(&mut self, bits: u32) -> i128 {
        let m = self.unsigned(bits - 1) as i128;
        if self.byte() & 1 == 1 {
            -m - 1
        } else {
            m
        }
    }
}

/// Construct values of a type from a byte source; `extremes()[0]` is a size-maximising value.
pub trait Gen: Sized {
    fn gen(s: &mut Src) -> Self;
    fn extremes() -> Vec<Self>;
}

/// A type-erased value of a corpus type.
pub trait Erased {
    fn bytes(&self) -> postcard::Result<Vec<u8>>;
    fn size(&self) -> postcard::Result<usize>;
    fn to_slice_cap(&self, cap: usize) -> postcard::Result<usize>;
    fn call(&self) -> Result<Call, String>;
    fn json(&self) -> Option<Json>;
    fn dbg(&self) -> String;
}

impl<T: Serialize + Debug> Erased for T {
    fn bytes(&self) -> postcard::Result<Vec<u8>> {
        postcard::to_allocvec(self)
    }
    fn size(&self) -> postcard::Result<usize> {
        postcard::experimental::serialized_size(self)
    }
    fn to_slice_cap(&self, cap: usize) -> postcard::Result<usize> {
        let mut buf = vec![0u8; cap];
        postcard::to_slice(self, &mut buf).map(|s| s.len())
    }
    fn call(&self) -> Result<Call, String> {
        record(self).map_err(|e| e.0)
    }
    fn json(&self) -> Option<Json> {
        serde_json::to_value(self).ok()
    }
    fn dbg(&self) -> String {
        let s = format!("{:?}", self);
        if s.len() > 300 {
            let mut c = 300;
            while !s.is_char_boundary(c) {
                c -= 1;
            }
            format!("{}…", &s[..c])
        } else {
            s
        }
    }
}

pub struct CorpusType {
    pub name: String,
    pub make: fn(&mut Src) -> Box<dyn Erased>,
    pub extremes: fn() -> Vec<Box<dyn Erased>>,
    pub schema: Option<fn() -> &'static DataModelType>,
    pub max_size: Option<usize>,
    /// the property claims the maximum is attained for this type
    pub tight: bool,
    /// decode bytes as T and re-encode (owned types only)
    pub roundtrip: Option<fn(&[u8]) -> Result<(Vec<u8>, usize), String>>,
    pub key: Option<fn(&str) -> [u8; 8]>,
    /// the serde_json form of every generated value is unambiguous (C17)
    pub json_faithful: bool,
    /// the type's Deserialize accepts exactly the value space its schema describes (no capacity
    /// limits, no key de-duplication, no non-zero / text-format constraints)
    pub strict_decode: bool,
    pub generated: bool,
}

pub fn base<T: Gen + Serialize + Debug + 'static>(name: &str) -> CorpusType {
    CorpusType {
        name: name.to_string(),
        make: |s| Box::new(T::gen(s)),
        extremes: || T::extremes().into_iter().map(|v| Box::new(v) as Box<dyn Erased>).collect(),
        schema: None,
        max_size: None,
        tight: false,
        roundtrip: None,
        key: None,
        json_faithful: false,
        strict_decode: false,
        generated: false,
    }
}

impl CorpusType {
    pub fn schema<T: Schema + ?Sized>(mut self) -> Self {
        self.schema = Some(|| T::SCHEMA);
        self.key = Some(|p| postcard_schema::key::Key::for_path::<T>(p).to_bytes());
        self
    }
    pub fn max<T: MaxSize>(mut self, tight: bool) -> Self {
        self.max_size = Some(T::POSTCARD_MAX_SIZE);
        self.tight = tight;
        self
    }
    pub fn de<T: DeserializeOwned + Serialize>(mut self) -> Self {
        self.roundtrip = Some(|b| {
            let (v, rem) = postcard::take_from_bytes::<T>(b).map_err(|e| format!("{:?}", e))?;
            let consumed = b.len() - rem.len();
            postcard::to_allocvec(&v).map(|x| (x, consumed)).map_err(|e| format!("{:?}", e))
        });
        self
    }
    pub fn json(mut self) -> Self {
        self.json_faithful = true;
        self
    }
    pub fn strict(mut self) -> Self {
        self.strict_decode = true;
        self
    }
}

const STRICT_HANDWRITTEN: &[&str] = &[
    "bool", "u8", "u16", "u32", "u64", "u128", "i8", "i16", "i32", "i64", "i128", "f32", "f64", "()", "usize", "isize",
    "Option<u32>", "Option<Option<i16>>", "Option<(u8, i64)>", "Result<u8, String>", "Result<u64, i8>", "Result<(), ()>",
    "[u8; 0]", "[u32; 1]", "[i64; 2]", "[Option<u16>; 3]", "(u64,)", "(u8, i16)", "(bool, u32, f32)", "(u8, u16, u32, u64)",
    "(i8, i16, i32, i64, i128)", "Range<u32>", "RangeInclusive<i16>", "RangeFrom<u64>", "RangeTo<u8>", "Box<u64>",
    "Box<Option<[u32; 2]>>", "String", "Vec<u8>", "Vec<u64>", "Vec<String>", "Vec<Vec<i32>>", "VecDeque<u32>", "Demo", "UnitS",
    "NewtypeS", "TupleS", "EmptyTupleS", "EmptyNamedS", "AllForms", "Generic<u16, String>", "Tree2", "E127", "E128", "E129",
    "PubStruct", "PubEnum", "Key",
];

pub fn all() -> Vec<CorpusType> {
    let mut v = handwritten::types();
    for t in v.iter_mut() {
        if STRICT_HANDWRITTEN.contains(&t.name.as_str()) {
            t.strict_decode = true;
        }
    }
    let mut g = generated::types();
    for t in g.iter_mut() {
        t.generated = true;
    }
    v.extend(g);
    v
}

// ------------------------------------------------------------------ Gen impls for std types

macro_rules! gen_uint {
    ($($t:ty),*) => {$(
        impl Gen for $t {
            fn gen(s: &mut Src) -> Self {
                let bits = <$t>::BITS;
                let v = s.unsigned(bits);
                if s.json_mode && bits == 128 { (v as u64) as $t } else { v as $t }
            }
            fn extremes() -> Vec<Self> { vec![<$t>::MAX, 0, 1, <$t>::MAX / 2 + 1, 127, 128] }
        }
    )*};
}
gen_uint!(u8, u16, u32, u64, u128, usize);

macro_rules! gen_sint {
    ($($t:ty),*) => {$(
        impl Gen for $t {
            fn gen(s: &mut Src) -> Self {
                let bits = <$t>::BITS;
                let v = s.signed(bits);
                if s.json_mode && bits == 128 { (v as i64) as $t } else { v as $t }
            }
            fn extremes() -> Vec<Self> { vec![<$t>::MIN, <$t>::MAX, 0, -1, 1, 63, -64, 64, -65] }
        }
    )*};
}
gen_sint!(i8, i16, i32, i64, i128, isize);

impl Gen for bool {
    fn gen(s: &mut Src) -> Self {
        s.byte() & 1 == 1
    }
    fn extremes() -> Vec<Self> {
        vec![true, false]
    }
}

impl Gen for f32 {
    fn gen(s: &mut Src) -> Self {
        let mode = s.byte();
        let bits = s.u64() as u32;
        let v = match mode % 6 {
            0 => [0.0f32, -0.0, 1.0, -32.005859375, f32::MAX, f32::MIN_POSITIVE][(bits % 6) as usize],
            1 if !s.json_mode => [f32::INFINITY, f32::NEG_INFINITY, f32::NAN, f32::from_bits(0x7F80_0001)][(bits % 4) as usize],
            _ => f32::from_bits(bits),
        };
        if s.json_mode && !v.is_finite() {
            1.5
        } else {
            v
        }
    }
    fn extremes() -> Vec<Self> {
        vec![f32::MAX, 0.0, -0.0, f32::MIN_POSITIVE]
    }
}

impl Gen for f64 {
    fn gen(s: &mut Src) -> Self {
        let mode = s.byte();
        let bits = s.u64();
        let v = match mode % 6 {
            0 => [0.0f64, -0.0, 1.0, -32.005859375, f64::MAX, f64::MIN_POSITIVE][(bits % 6) as usize],
            1 if !s.json_mode => [f64::INFINITY, f64::NEG_INFINITY, f64::NAN][(bits % 3) as usize],
            _ => f64::from_bits(bits),
        };
        if s.json_mode && !v.is_finite() {
            2.5
        } else {
            v
        }
    }
    fn extremes() -> Vec<Self> {
        vec![f64::MAX, 0.0, -0.0]
    }
}

impl Gen for char {
    fn gen(s: &mut Src) -> Self {
        let mode = s.byte();
        let raw = s.u64() as u32;
        match mode % 4 {
            0 => ['\0', 'a', '\u{7F}', '\u{80}', '\u{7FF}', '\u{800}', '\u{FFFF}', '\u{10000}', '\u{10FFFF}', 'é', '名'][(raw % 11) as usize],
            1 => (b' ' + (raw % 95) as u8) as char,
            _ => char::from_u32(raw % 0x110000).unwrap_or('\u{FFFD}'),
        }
    }
    fn extremes() -> Vec<Self> {
        vec!['\u{10FFFF}', 'a', '\u{7FF}', '\u{FFFF}', '\0']
    }
}

impl Gen for () {
    fn gen(_: &mut Src) -> Self {}
    fn extremes() -> Vec<Self> {
        vec![()]
    }
}

impl Gen for String {
    fn gen(s: &mut Src) -> Self {
        let n = s.len(400);
        let ascii = s.byte() % 3 != 0;
        (0..n)
            .map(|_| if ascii { (b' ' + s.byte() % 95) as char } else { char::gen(s) })
            .collect()
    }
    fn extremes() -> Vec<Self> {
        vec!["x".repeat(300), String::new(), "é名\u{10FFFF}".to_string(), "a".repeat(127), "a".repeat(128)]
    }
}

impl<T: Gen> Gen for Option<T> {
    fn gen(s: &mut Src) -> Self {
        if s.byte() % 4 == 0 {
            None
        } else {
            Some(T::gen(s))
        }
    }
    fn extremes() -> Vec<Self> {
        let mut v: Vec<Self> = T::extremes().into_iter().map(Some).collect();
        v.push(None);
        v
    }
}

impl<T: Gen, E: Gen> Gen for Result<T, E> {
    fn gen(s: &mut Src) -> Self {
        if s.byte() % 2 == 0 {
            Ok(T::gen(s))
        } else {
            Err(E::gen(s))
        }
    }
    fn extremes() -> Vec<Self> {
        let mut v: Vec<Self> = T::extremes().into_iter().map(Ok).collect();
        v.extend(E::extremes().into_iter().map(Err));
        v
    }
}

impl<T: Gen> Gen for Vec<T> {
    fn gen(s: &mut Src) -> Self {
        let n = s.len(300);
        s.depth += 1;
        let v = (0..n).map(|_| T::gen(s)).collect();
        s.depth -= 1;
        v
    }
    fn extremes() -> Vec<Self> {
        let e = T::extremes();
        let mut out = vec![vec![], e.into_iter().take(3).collect::<Vec<T>>()];
        out.push((0..130).filter_map(|_| T::extremes().into_iter().next()).collect());
        out
    }
}

impl<T: Gen> Gen for Box<T> {
    fn gen(s: &mut Src) -> Self {
        Box::new(T::gen(s))
    }
    fn extremes() -> Vec<Self> {
        T::extremes().into_iter().map(Box::new).collect()
    }
}
impl<T: Gen> Gen for std::rc::Rc<T> {
    fn gen(s: &mut Src) -> Self {
        std::rc::Rc::new(T::gen(s))
    }
    fn extremes() -> Vec<Self> {
        T::extremes().into_iter().map(std::rc::Rc::new).collect()
    }
}
impl<T: Gen> Gen for std::sync::Arc<T> {
    fn gen(s: &mut Src) -> Self {
        std::sync::Arc::new(T::gen(s))
    }
    fn extremes() -> Vec<Self> {
        T::extremes().into_iter().map(std::sync::Arc::new).collect()
    }
}

impl<T: Gen, const N: usize> Gen for [T; N] {
    fn gen(s: &mut Src) -> Self {
        core::array::from_fn(|_| T::gen(s))
    }
    fn extremes() -> Vec<Self> {
        let k = T::extremes().len().min(3);
        (0..k).map(|i| core::array::from_fn(|_| T::extremes().into_iter().nth(i).unwrap())).collect()
    }
}

macro_rules! gen_tuple {
    ($(($($n:ident),+)),*) => {$(
        impl<$($n: Gen),+> Gen for ($($n,)+) {
            fn gen(s: &mut Src) -> Self { ($($n::gen(s),)+) }
            fn extremes() -> Vec<Self> {
                (0..3).filter_map(|i| Some(($({ let e = $n::extremes(); let k = e.len(); e.into_iter().nth(i % k)? },)+))).collect()
            }
        }
    )*};
}
gen_tuple!((A), (A, B), (A, B, C), (A, B, C, D), (A, B, C, D, E), (A, B, C, D, E, F));

impl<T: Gen> Gen for std::collections::BTreeMap<String, T> {
    fn gen(s: &mut Src) -> Self {
        let n = s.len(12);
        s.depth += 1;
        let m = (0..n).map(|i| (format!("k{:03}{}", i, (b'a' + s.byte() % 26) as char), T::gen(s))).collect();
        s.depth -= 1;
        m
    }
    fn extremes() -> Vec<Self> {
        vec![Default::default(), T::extremes().into_iter().enumerate().map(|(i, v)| (format!("key{}", i), v)).collect()]
    }
}

impl<T: Gen + Ord> Gen for std::collections::BTreeSet<T> {
    fn gen(s: &mut Src) -> Self {
        Vec::<T>::gen(s).into_iter().collect()
    }
    fn extremes() -> Vec<Self> {
        vec![Default::default(), T::extremes().into_iter().collect()]
    }
}

impl<T: Gen> Gen for std::collections::VecDeque<T> {
    fn gen(s: &mut Src) -> Self {
        Vec::<T>::gen(s).into_iter().collect()
    }
    fn extremes() -> Vec<Self> {
        vec![Default::default(), T::extremes().into_iter().collect()]
    }
}

impl<T: Gen, const N: usize> Gen for heapless07::Vec<T, N> {
    fn gen(s: &mut Src) -> Self {
        let n = if s.byte() % 4 == 0 { N } else { s.len(N) };
        let mut v = heapless07::Vec::new();
        for _ in 0..n.min(N) {
            let _ = v.push(T::gen(s));
        }
        v
    }
    fn extremes() -> Vec<Self> {
        let mut full = heapless07::Vec::new();
        while full.len() < N {
            let _ = full.push(T::extremes().into_iter().next().unwrap());
        }
        vec![full, heapless07::Vec::new()]
    }
}

impl<const N: usize> Gen for heapless07::String<N> {
    fn gen(s: &mut Src) -> Self {
        let n = if s.byte() % 4 == 0 { N } else { s.len(N) };
        let mut v = heapless07::String::new();
        for _ in 0..n.min(N) {
            let _ = v.push((b'a' + s.byte() % 26) as char);
        }
        v
    }
    fn extremes() -> Vec<Self> {
        let mut full = heapless07::String::new();
        while full.len() < N {
            let _ = full.push('z');
        }
        vec![full, heapless07::String::new()]
    }
}

impl<T: Gen, const N: usize> Gen for heapless08::Vec<T, N> {
    fn gen(s: &mut Src) -> Self {
        let n = s.len(N);
        let mut v = heapless08::Vec::new();
        for _ in 0..n.min(N) {
            let _ = v.push(T::gen(s));
        }
        v
    }
    fn extremes() -> Vec<Self> {
        let mut full = heapless08::Vec::new();
        while full.len() < N {
            let _ = full.push(T::extremes().into_iter().next().unwrap());
        }
        vec![full, heapless08::Vec::new()]
    }
}

impl<const N: usize> Gen for heapless08::String<N> {
    fn gen(s: &mut Src) -> Self {
        let n = s.len(N);
        let mut v = heapless08::String::new();
        for _ in 0..n.min(N) {
            let _ = v.push((b'a' + s.byte() % 26) as char);
        }
        v
    }
    fn extremes() -> Vec<Self> {
        let mut full = heapless08::String::new();
        while full.len() < N {
            let _ = full.push('z');
        }
        vec![full, heapless08::String::new()]
    }
}

impl<T: Gen> Gen for std::ops::Range<T> {
    fn gen(s: &mut Src) -> Self {
        T::gen(s)..T::gen(s)
    }
    fn extremes() -> Vec<Self> {
        T::extremes().into_iter().take(2).map(|v| v..T::extremes().into_iter().next().unwrap()).collect()
    }
}
impl<T: Gen> Gen for std::ops::RangeInclusive<T> {
    fn gen(s: &mut Src) -> Self {
        T::gen(s)..=T::gen(s)
    }
    fn extremes() -> Vec<Self> {
        T::extremes().into_iter().take(2).map(|v| v..=T::extremes().into_iter().next().unwrap()).collect()
    }
}
impl<T: Gen> Gen for std::ops::RangeFrom<T> {
    fn gen(s: &mut Src) -> Self {
        T::gen(s)..
    }
    fn extremes() -> Vec<Self> {
        T::extremes().into_iter().take(2).map(|v| v..).collect()
    }
}
impl<T: Gen> Gen for std::ops::RangeTo<T> {
    fn gen(s: &mut Src) -> Self {
        ..T::gen(s)
    }
    fn extremes() -> Vec<Self> {
        T::extremes().into_iter().take(2).map(|v| ..v).collect()
    }
}

macro_rules! gen_nonzero {
    ($($nz:ty, $t:ty);*) => {$(
        impl Gen for $nz {
            fn gen(s: &mut Src) -> Self {
                let v = <$t>::gen(s);
                <$nz>::new(if v == 0 { 1 } else { v }).unwrap()
            }
            fn extremes() -> Vec<Self> {
                <$t>::extremes().into_iter().filter(|v| *v != 0).map(|v| <$nz>::new(v).unwrap()).collect()
            }
        }
    )*};
}
gen_nonzero!(
    std::num::NonZeroU8, u8; std::num::NonZeroU16, u16; std::num::NonZeroU32, u32; std::num::NonZeroU64, u64;
    std::num::NonZeroU128, u128; std::num::NonZeroUsize, usize; std::num::NonZeroI8, i8; std::num::NonZeroI16, i16;
    std::num::NonZeroI32, i32; std::num::NonZeroI64, i64; std::num::NonZeroI128, i128; std::num::NonZeroIsize, isize
);

impl<T> Gen for std::marker::PhantomData<T> {
    fn gen(_: &mut Src) -> Self {
        std::marker::PhantomData
    }
    fn extremes() -> Vec<Self> {
        vec![std::marker::PhantomData]
    }
}
