//! Hand-written corpus: every built-in MaxSize / Schema impl at several parameters, plus a few
//! ordinary user types (the repo's own test types among them).

use super::{base, CorpusType, Gen, Src};
use postcard_derive::MaxSize;
use postcard_schema::key::Key;
use postcard_schema::schema::owned::OwnedDataModelType;
use postcard_schema::schema::DataModelType;
use postcard_schema::Schema;
use serde::{Deserialize, Serialize};
use std::collections::{BTreeMap, BTreeSet, HashMap, HashSet, VecDeque};
use std::num::*;
use std::ops::{Range, RangeFrom, RangeInclusive, RangeTo};
use std::path::PathBuf;
use std::rc::Rc;
use std::sync::Arc;

impl Gen for uuid::Uuid {
    fn gen(s: &mut Src) -> Self {
        uuid::Uuid::from_bytes(<[u8; 16]>::gen(s))
    }
    fn extremes() -> Vec<Self> {
        vec![uuid::Uuid::from_bytes([0xFF; 16]), uuid::Uuid::from_bytes([0; 16])]
    }
}

impl Gen for chrono::DateTime<chrono::Utc> {
    fn gen(s: &mut Src) -> Self {
        let secs = (s.u64() % 8_000_000_000) as i64 - 2_000_000_000;
        let nanos = (s.u64() % 1_000_000_000) as u32;
        chrono::DateTime::from_timestamp(secs, nanos).unwrap_or_default()
    }
    fn extremes() -> Vec<Self> {
        vec![chrono::DateTime::from_timestamp(253_402_300_799, 999_999_999).unwrap(), chrono::DateTime::from_timestamp(0, 0).unwrap()]
    }
}

impl Gen for chrono::DateTime<chrono::FixedOffset> {
    fn gen(s: &mut Src) -> Self {
        let utc = chrono::DateTime::<chrono::Utc>::gen(s);
        // whole minutes: chrono's RFC 3339 text form cannot carry offset seconds
        let off = ((s.u64() % 2_800) as i32 - 1_400) * 60;
        utc.with_timezone(&chrono::FixedOffset::east_opt(off).unwrap())
    }
    fn extremes() -> Vec<Self> {
        chrono::DateTime::<chrono::Utc>::extremes()
            .into_iter()
            .map(|d| d.with_timezone(&chrono::FixedOffset::east_opt(-3600 * 5 - 1800).unwrap()))
            .collect()
    }
}

impl<T: Gen + nalgebra::Scalar, const R: usize, const C: usize> Gen for nalgebra::SMatrix<T, R, C> {
    fn gen(s: &mut Src) -> Self {
        nalgebra::SMatrix::<T, R, C>::from_fn(|_, _| T::gen(s))
    }
    fn extremes() -> Vec<Self> {
        vec![nalgebra::SMatrix::<T, R, C>::from_fn(|_, _| T::extremes().into_iter().next().unwrap())]
    }
}

impl Gen for Key {
    fn gen(s: &mut Src) -> Self {
        unsafe { Key::from_bytes(<[u8; 8]>::gen(s)) }
    }
    fn extremes() -> Vec<Self> {
        vec![unsafe { Key::from_bytes([0xFF; 8]) }]
    }
}

impl Gen for std::net::Ipv4Addr {
    fn gen(s: &mut Src) -> Self {
        std::net::Ipv4Addr::from(<[u8; 4]>::gen(s))
    }
    fn extremes() -> Vec<Self> {
        vec![std::net::Ipv4Addr::BROADCAST, std::net::Ipv4Addr::UNSPECIFIED]
    }
}
impl Gen for std::net::Ipv6Addr {
    fn gen(s: &mut Src) -> Self {
        std::net::Ipv6Addr::from(<[u8; 16]>::gen(s))
    }
    fn extremes() -> Vec<Self> {
        vec![std::net::Ipv6Addr::from([0xFF; 16]), std::net::Ipv6Addr::UNSPECIFIED]
    }
}
impl Gen for std::net::SocketAddr {
    fn gen(s: &mut Src) -> Self {
        if s.byte() % 2 == 0 {
            std::net::SocketAddr::new(std::net::IpAddr::V4(Gen::gen(s)), Gen::gen(s))
        } else {
            std::net::SocketAddr::new(std::net::IpAddr::V6(Gen::gen(s)), Gen::gen(s))
        }
    }
    fn extremes() -> Vec<Self> {
        vec![std::net::SocketAddr::new(std::net::IpAddr::V6(std::net::Ipv6Addr::from([0xFF; 16])), u16::MAX)]
    }
}

impl Gen for PathBuf {
    fn gen(s: &mut Src) -> Self {
        PathBuf::from(String::gen(s))
    }
    fn extremes() -> Vec<Self> {
        vec![PathBuf::from("/a/rather/long/path/to/somewhere.txt"), PathBuf::new()]
    }
}

impl Gen for std::ffi::CString {
    fn gen(s: &mut Src) -> Self {
        let n = s.len(40);
        std::ffi::CString::new((0..n).map(|_| 1 + s.byte() % 255).collect::<Vec<u8>>()).unwrap()
    }
    fn extremes() -> Vec<Self> {
        vec![std::ffi::CString::new(vec![b'x'; 200]).unwrap(), std::ffi::CString::default()]
    }
}

impl<T: Gen> Gen for HashMap<String, T> {
    fn gen(s: &mut Src) -> Self {
        BTreeMap::<String, T>::gen(s).into_iter().collect()
    }
    fn extremes() -> Vec<Self> {
        BTreeMap::<String, T>::extremes().into_iter().map(|m| m.into_iter().collect()).collect()
    }
}

impl<T: Gen + std::hash::Hash + Eq> Gen for HashSet<T> {
    fn gen(s: &mut Src) -> Self {
        Vec::<T>::gen(s).into_iter().collect()
    }
    fn extremes() -> Vec<Self> {
        vec![HashSet::new(), T::extremes().into_iter().collect()]
    }
}

fn gen_tree(s: &mut Src, depth: u32) -> crate::schematree::Tree {
    use crate::schematree::{TData, Tree, LEAVES};
    let name = |s: &mut Src| ["", "a", "q", "Foo", "名前", "qqq", "Point"][s.below(7)].to_string();
    let data = |s: &mut Src, depth: u32| match s.below(4) {
        0 => TData::Unit,
        1 => TData::Newtype(Box::new(gen_tree(s, depth + 1))),
        2 => TData::Tuple((0..s.below(4)).map(|_| gen_tree(s, depth + 1)).collect()),
        _ => TData::Struct((0..s.below(4)).map(|_| (name(s), gen_tree(s, depth + 1))).collect()),
    };
    if depth >= 3 || s.byte() % 3 == 0 {
        return LEAVES[s.below(LEAVES.len())].clone();
    }
    match s.below(7) {
        0 => Tree::Option(Box::new(gen_tree(s, depth + 1))),
        1 => Tree::Seq(Box::new(gen_tree(s, depth + 1))),
        2 => Tree::Tuple((0..s.below(4)).map(|_| gen_tree(s, depth + 1)).collect()),
        3 => Tree::Map(Box::new(gen_tree(s, depth + 1)), Box::new(gen_tree(s, depth + 1))),
        4 => Tree::Struct(name(s), data(s, depth)),
        _ => Tree::Enum(name(s), (0..s.below(4)).map(|_| (name(s), data(s, depth))).collect()),
    }
}

impl Gen for OwnedDataModelType {
    fn gen(s: &mut Src) -> Self {
        crate::schematree::to_owned_expected(&gen_tree(s, 0))
    }
    fn extremes() -> Vec<Self> {
        vec![<Demo as Schema>::SCHEMA.into(), OwnedDataModelType::Schema, OwnedDataModelType::Usize]
    }
}

/// a borrowed (static) schema value: one of the corpus types' own SCHEMA constants
#[derive(Debug, Serialize)]
#[serde(transparent)]
pub struct StaticSchema(pub &'static DataModelType);
/// a hand-written static schema that mentions every DataModelType and Data kind
pub const EVERY_KIND: &DataModelType = &DataModelType::Tuple(&[
    &DataModelType::Bool,
    &DataModelType::I8,
    &DataModelType::U8,
    &DataModelType::I16,
    &DataModelType::I32,
    &DataModelType::I64,
    &DataModelType::I128,
    &DataModelType::U16,
    &DataModelType::U32,
    &DataModelType::U64,
    &DataModelType::U128,
    &DataModelType::Usize,
    &DataModelType::Isize,
    &DataModelType::F32,
    &DataModelType::F64,
    &DataModelType::Char,
    &DataModelType::String,
    &DataModelType::ByteArray,
    &DataModelType::Option(&DataModelType::Usize),
    &DataModelType::Unit,
    &DataModelType::Seq(&DataModelType::Isize),
    &DataModelType::Map { key: &DataModelType::String, val: &DataModelType::Schema },
    &DataModelType::Struct { name: "U", data: postcard_schema::schema::Data::Unit },
    &DataModelType::Struct { name: "N", data: postcard_schema::schema::Data::Newtype(&DataModelType::Isize) },
    &DataModelType::Struct { name: "T", data: postcard_schema::schema::Data::Tuple(&[&DataModelType::Usize, &DataModelType::Schema]) },
    &DataModelType::Struct {
        name: "Cursor",
        data: postcard_schema::schema::Data::Struct(&[
            &postcard_schema::schema::NamedField { name: "offset", ty: &DataModelType::Usize },
            &postcard_schema::schema::NamedField { name: "delta", ty: &DataModelType::Isize },
        ]),
    },
    &DataModelType::Enum {
        name: "E",
        variants: &[
            &postcard_schema::schema::Variant { name: "A", data: postcard_schema::schema::Data::Unit },
            &postcard_schema::schema::Variant { name: "B", data: postcard_schema::schema::Data::Newtype(&DataModelType::Usize) },
            &postcard_schema::schema::Variant { name: "C", data: postcard_schema::schema::Data::Tuple(&[]) },
            &postcard_schema::schema::Variant {
                name: "D",
                data: postcard_schema::schema::Data::Struct(&[&postcard_schema::schema::NamedField { name: "x", ty: &DataModelType::Isize }]),
            },
        ],
    },
    &DataModelType::Schema,
]);

impl Gen for StaticSchema {
    fn gen(s: &mut Src) -> Self {
        let all: &[&'static DataModelType] = &[
            EVERY_KIND,
            &DataModelType::Usize,
            &DataModelType::Isize,
            <u8 as Schema>::SCHEMA,
            <Demo as Schema>::SCHEMA,
            <AllForms as Schema>::SCHEMA,
            <Option<Vec<(u8, String)>> as Schema>::SCHEMA,
            <BTreeMap<String, i64> as Schema>::SCHEMA,
            <Result<u8, String> as Schema>::SCHEMA,
            <OwnedDataModelType as Schema>::SCHEMA,
            <[u16; 3] as Schema>::SCHEMA,
            <Range<u32> as Schema>::SCHEMA,
        ];
        StaticSchema(all[s.below(all.len())])
    }
    fn extremes() -> Vec<Self> {
        vec![StaticSchema(EVERY_KIND), StaticSchema(<AllForms as Schema>::SCHEMA), StaticSchema(&DataModelType::Usize), StaticSchema(&DataModelType::Isize)]
    }
}
impl Schema for StaticSchema {
    const SCHEMA: &'static DataModelType = <DataModelType as Schema>::SCHEMA;
}

// ------------------------------------------------------------------ ordinary user types

#[derive(Serialize, Deserialize, Schema, MaxSize, Debug, Clone, PartialEq)]
pub struct Demo {
    pub a: u32,
    pub b: u8,
}
impl Gen for Demo {
    fn gen(s: &mut Src) -> Self {
        Demo { a: Gen::gen(s), b: Gen::gen(s) }
    }
    fn extremes() -> Vec<Self> {
        vec![Demo { a: u32::MAX, b: 255 }, Demo { a: 0, b: 0 }]
    }
}

#[derive(Serialize, Deserialize, Schema, MaxSize, Debug, Clone, PartialEq)]
pub struct UnitS;
#[derive(Serialize, Deserialize, Schema, MaxSize, Debug, Clone, PartialEq)]
pub struct NewtypeS(pub i64);
#[derive(Serialize, Deserialize, Schema, MaxSize, Debug, Clone, PartialEq)]
pub struct TupleS(pub u8, pub i16, pub bool);
#[derive(Serialize, Deserialize, Schema, MaxSize, Debug, Clone, PartialEq)]
pub struct EmptyTupleS();
#[derive(Serialize, Deserialize, Schema, MaxSize, Debug, Clone, PartialEq)]
pub struct EmptyNamedS {}

impl Gen for UnitS {
    fn gen(_: &mut Src) -> Self {
        UnitS
    }
    fn extremes() -> Vec<Self> {
        vec![UnitS]
    }
}
impl Gen for NewtypeS {
    fn gen(s: &mut Src) -> Self {
        NewtypeS(Gen::gen(s))
    }
    fn extremes() -> Vec<Self> {
        vec![NewtypeS(i64::MIN), NewtypeS(0)]
    }
}
impl Gen for TupleS {
    fn gen(s: &mut Src) -> Self {
        TupleS(Gen::gen(s), Gen::gen(s), Gen::gen(s))
    }
    fn extremes() -> Vec<Self> {
        vec![TupleS(255, i16::MIN, true)]
    }
}
impl Gen for EmptyTupleS {
    fn gen(_: &mut Src) -> Self {
        EmptyTupleS()
    }
    fn extremes() -> Vec<Self> {
        vec![EmptyTupleS()]
    }
}
impl Gen for EmptyNamedS {
    fn gen(_: &mut Src) -> Self {
        EmptyNamedS {}
    }
    fn extremes() -> Vec<Self> {
        vec![EmptyNamedS {}]
    }
}

#[derive(Serialize, Deserialize, Schema, MaxSize, Debug, Clone, PartialEq)]
pub enum AllForms {
    Unit,
    Newtype(u16),
    Tuple(u8, i32),
    Struct { x: u64, y: bool },
    EmptyTuple(),
    EmptyStruct {},
    Nested(Demo),
    Opt(Option<u8>),
}
impl Gen for AllForms {
    fn gen(s: &mut Src) -> Self {
        match s.below(8) {
            0 => AllForms::Unit,
            1 => AllForms::Newtype(Gen::gen(s)),
            2 => AllForms::Tuple(Gen::gen(s), Gen::gen(s)),
            3 => AllForms::Struct { x: Gen::gen(s), y: Gen::gen(s) },
            4 => AllForms::EmptyTuple(),
            5 => AllForms::EmptyStruct {},
            6 => AllForms::Nested(Gen::gen(s)),
            _ => AllForms::Opt(Gen::gen(s)),
        }
    }
    fn extremes() -> Vec<Self> {
        vec![
            AllForms::Struct { x: u64::MAX, y: true },
            AllForms::Unit,
            AllForms::Newtype(u16::MAX),
            AllForms::Tuple(255, i32::MIN),
            AllForms::EmptyTuple(),
            AllForms::EmptyStruct {},
            AllForms::Nested(Demo { a: u32::MAX, b: 255 }),
            AllForms::Opt(Some(255)),
        ]
    }
}

#[derive(Serialize, Deserialize, Schema, Debug, Clone, PartialEq)]
pub struct Generic<T, U> {
    pub first: T,
    pub second: Vec<U>,
    pub third: Option<T>,
}
impl<T: Gen, U: Gen> Gen for Generic<T, U> {
    fn gen(s: &mut Src) -> Self {
        Generic { first: Gen::gen(s), second: Gen::gen(s), third: Gen::gen(s) }
    }
    fn extremes() -> Vec<Self> {
        vec![Generic { first: T::extremes().remove(0), second: vec![], third: None }]
    }
}

#[derive(Serialize, Deserialize, Schema, Debug, Clone, PartialEq)]
pub enum Tree2 {
    Leaf(u8),
    Node(Vec<Tree2Child>),
}
#[derive(Serialize, Deserialize, Schema, Debug, Clone, PartialEq)]
pub struct Tree2Child {
    pub label: String,
    pub weight: f32,
}
impl Gen for Tree2 {
    fn gen(s: &mut Src) -> Self {
        if s.byte() % 2 == 0 {
            Tree2::Leaf(Gen::gen(s))
        } else {
            Tree2::Node((0..s.below(4)).map(|_| Tree2Child { label: Gen::gen(s), weight: Gen::gen(s) }).collect())
        }
    }
    fn extremes() -> Vec<Self> {
        vec![Tree2::Leaf(255), Tree2::Node(vec![])]
    }
}

/// zero-sized in memory, one byte on the wire
#[derive(Serialize, Deserialize, Schema, MaxSize, Debug, Clone, Copy, PartialEq)]
pub enum OneVariant {
    Only,
}
impl Gen for OneVariant {
    fn gen(_: &mut Src) -> Self {
        OneVariant::Only
    }
    fn extremes() -> Vec<Self> {
        vec![OneVariant::Only]
    }
}

/// more than 16 variants, the largest payloads late in the list
#[derive(Serialize, Deserialize, Schema, MaxSize, Debug, Clone, PartialEq)]
pub enum WideEnum {
    V0, V1, V2, V3, V4, V5, V6, V7, V8, V9, V10, V11, V12, V13, V14, V15,
    V16(u32),
    V17, V18, V19, V20, V21, V22, V23, V24, V25, V26, V27, V28, V29, V30, V31,
    V32 { a: u64, b: i128 },
    V33(u8),
    V34([u16; 4], char),
}
impl Gen for WideEnum {
    fn gen(s: &mut Src) -> Self {
        match s.below(8) {
            0 => WideEnum::V0,
            1 => WideEnum::V15,
            2 => WideEnum::V16(Gen::gen(s)),
            3 => WideEnum::V31,
            4 => WideEnum::V32 { a: Gen::gen(s), b: Gen::gen(s) },
            5 => WideEnum::V33(Gen::gen(s)),
            6 => WideEnum::V34(Gen::gen(s), Gen::gen(s)),
            _ => WideEnum::V20,
        }
    }
    fn extremes() -> Vec<Self> {
        vec![
            WideEnum::V32 { a: u64::MAX, b: i128::MIN },
            WideEnum::V16(u32::MAX),
            WideEnum::V34([u16::MAX; 4], '\u{10FFFF}'),
            WideEnum::V33(255),
            WideEnum::V0,
            WideEnum::V31,
        ]
    }
}

/// lifetime-carrying derive user (borrowed fields; values borrow from a static pool)
#[derive(Serialize, Schema, Debug, Clone, PartialEq)]
pub struct BorrowedS<'a> {
    pub s: &'a str,
    pub b: &'a [u8],
    pub inner: Option<&'a str>,
    pub n: u16,
}
const STR_POOL: &[&str] = &["", "a", "hello", "héllo wörld", "名前", "0123456789012345678901234567890123456789"];
const BYTES_POOL: &[&[u8]] = &[&[], &[0], &[1, 2, 3], &[0xFF; 40], &[0, 0, 0, 0]];
impl Gen for BorrowedS<'static> {
    fn gen(s: &mut Src) -> Self {
        BorrowedS {
            s: STR_POOL[s.below(STR_POOL.len())],
            b: BYTES_POOL[s.below(BYTES_POOL.len())],
            inner: if s.byte() % 2 == 0 { None } else { Some(STR_POOL[s.below(STR_POOL.len())]) },
            n: Gen::gen(s),
        }
    }
    fn extremes() -> Vec<Self> {
        vec![BorrowedS { s: STR_POOL[5], b: BYTES_POOL[3], inner: Some(STR_POOL[3]), n: u16::MAX }]
    }
}

/// const-generic derive user
#[derive(Serialize, Deserialize, Schema, MaxSize, Debug, Clone, PartialEq)]
pub struct ConstGen<const N: usize> {
    pub head: u8,
    #[serde(with = "serde_arr")]
    pub body: [u16; N],
    pub tail: Option<i32>,
}
/// serde only implements arrays up to 32 via macros for Deserialize; route through a tuple-like helper
mod serde_arr {
    use serde::de::{SeqAccess, Visitor};
    use serde::ser::SerializeTuple;
    use serde::{Deserializer, Serializer};
    pub fn serialize<S: Serializer, const N: usize>(v: &[u16; N], s: S) -> Result<S::Ok, S::Error> {
        let mut t = s.serialize_tuple(N)?;
        for x in v {
            t.serialize_element(x)?;
        }
        t.end()
    }
    pub fn deserialize<'de, D: Deserializer<'de>, const N: usize>(d: D) -> Result<[u16; N], D::Error> {
        struct V<const N: usize>;
        impl<'de, const N: usize> Visitor<'de> for V<N> {
            type Value = [u16; N];
            fn expecting(&self, f: &mut std::fmt::Formatter) -> std::fmt::Result {
                write!(f, "an array of {}", N)
            }
            fn visit_seq<A: SeqAccess<'de>>(self, mut seq: A) -> Result<[u16; N], A::Error> {
                let mut out = [0u16; N];
                for (i, slot) in out.iter_mut().enumerate() {
                    *slot = seq.next_element()?.ok_or_else(|| serde::de::Error::invalid_length(i, &self))?;
                }
                Ok(out)
            }
        }
        d.deserialize_tuple(N, V::<N>)
    }
}
impl<const N: usize> Gen for ConstGen<N> {
    fn gen(s: &mut Src) -> Self {
        ConstGen { head: Gen::gen(s), body: Gen::gen(s), tail: Gen::gen(s) }
    }
    fn extremes() -> Vec<Self> {
        vec![ConstGen { head: 255, body: [u16::MAX; N], tail: Some(i32::MIN) }, ConstGen { head: 0, body: [0; N], tail: None }]
    }
}

/// array of tuples in a derived struct (the derive must size it as (A + B) * N)
#[derive(Serialize, Deserialize, Schema, MaxSize, Debug, Clone, PartialEq)]
pub struct Calibration {
    pub id: u8,
    pub points: [(u16, u32); 4],
    pub pairs: [(i64, char, bool); 2],
}
impl Gen for Calibration {
    fn gen(s: &mut Src) -> Self {
        Calibration { id: Gen::gen(s), points: Gen::gen(s), pairs: Gen::gen(s) }
    }
    fn extremes() -> Vec<Self> {
        vec![Calibration { id: 255, points: [(u16::MAX, u32::MAX); 4], pairs: [(i64::MIN, '\u{10FFFF}', true); 2] }]
    }
}

/// one unnamed field written with a trailing comma (what rustfmt produces for long field lists)
#[derive(Serialize, Deserialize, Schema, MaxSize, Debug, Clone, PartialEq)]
#[rustfmt::skip]
pub struct TrailingCommaS(
    pub u32,
);
#[derive(Serialize, Deserialize, Schema, MaxSize, Debug, Clone, PartialEq)]
#[rustfmt::skip]
pub enum TrailingCommaE {
    A(
        u16,
    ),
    B(u8, u8,),
    C { x: i8, },
}
impl Gen for TrailingCommaS {
    fn gen(s: &mut Src) -> Self {
        TrailingCommaS(Gen::gen(s))
    }
    fn extremes() -> Vec<Self> {
        vec![TrailingCommaS(u32::MAX)]
    }
}
impl Gen for TrailingCommaE {
    fn gen(s: &mut Src) -> Self {
        match s.below(3) {
            0 => TrailingCommaE::A(Gen::gen(s)),
            1 => TrailingCommaE::B(Gen::gen(s), Gen::gen(s)),
            _ => TrailingCommaE::C { x: Gen::gen(s) },
        }
    }
    fn extremes() -> Vec<Self> {
        vec![TrailingCommaE::A(u16::MAX), TrailingCommaE::B(255, 255), TrailingCommaE::C { x: -1 }]
    }
}

/// raw identifiers as field names of a struct *variant* and as variant names
#[derive(Serialize, Deserialize, Schema, MaxSize, Debug, Clone, PartialEq)]
pub enum RawVar {
    Plain,
    Cfg { r#type: u8, r#in: u16, r#match: bool },
    T(u16),
    r#Self_ { r#loop: i8 },
}
impl Gen for RawVar {
    fn gen(s: &mut Src) -> Self {
        match s.below(4) {
            0 => RawVar::Plain,
            1 => RawVar::Cfg { r#type: Gen::gen(s), r#in: Gen::gen(s), r#match: Gen::gen(s) },
            2 => RawVar::T(Gen::gen(s)),
            _ => RawVar::r#Self_ { r#loop: Gen::gen(s) },
        }
    }
    fn extremes() -> Vec<Self> {
        vec![RawVar::Plain, RawVar::Cfg { r#type: 255, r#in: u16::MAX, r#match: true }, RawVar::T(u16::MAX), RawVar::r#Self_ { r#loop: i8::MIN }]
    }
}

/// layout attributes that have nothing to do with serialisation
#[derive(Serialize, Deserialize, Schema, MaxSize, Debug, Clone, PartialEq)]
#[repr(transparent)]
pub struct ReprT(pub u32);
#[derive(Serialize, Deserialize, Schema, MaxSize, Debug, Clone, PartialEq)]
#[repr(transparent)]
pub struct ReprTN {
    pub inner: u16,
}
#[derive(Serialize, Deserialize, Schema, MaxSize, Debug, Clone, PartialEq)]
#[repr(transparent)]
pub struct ReprTG<T>(pub T);
#[derive(Serialize, Deserialize, Schema, MaxSize, Debug, Clone, Copy, PartialEq)]
#[repr(u8)]
pub enum ReprU8 {
    A = 3,
    B = 7,
    C = 200,
}
#[derive(Serialize, Deserialize, Schema, MaxSize, Debug, Clone, PartialEq)]
#[repr(C)]
pub struct ReprC {
    pub a: u8,
    pub b: u64,
    pub c: u8,
}
impl Gen for ReprT {
    fn gen(s: &mut Src) -> Self {
        ReprT(Gen::gen(s))
    }
    fn extremes() -> Vec<Self> {
        vec![ReprT(u32::MAX)]
    }
}
impl Gen for ReprTN {
    fn gen(s: &mut Src) -> Self {
        ReprTN { inner: Gen::gen(s) }
    }
    fn extremes() -> Vec<Self> {
        vec![ReprTN { inner: u16::MAX }]
    }
}
impl<T: Gen> Gen for ReprTG<T> {
    fn gen(s: &mut Src) -> Self {
        ReprTG(Gen::gen(s))
    }
    fn extremes() -> Vec<Self> {
        T::extremes().into_iter().map(ReprTG).collect()
    }
}
impl Gen for ReprU8 {
    fn gen(s: &mut Src) -> Self {
        [ReprU8::A, ReprU8::B, ReprU8::C][s.below(3) as usize]
    }
    fn extremes() -> Vec<Self> {
        vec![ReprU8::A, ReprU8::B, ReprU8::C]
    }
}
impl Gen for ReprC {
    fn gen(s: &mut Src) -> Self {
        ReprC { a: Gen::gen(s), b: Gen::gen(s), c: Gen::gen(s) }
    }
    fn extremes() -> Vec<Self> {
        vec![ReprC { a: 255, b: u64::MAX, c: 255 }]
    }
}

/// serde attributes that change what is written per value; the size bound has to hold for whatever is written
#[derive(Serialize, MaxSize, Debug, Clone, PartialEq)]
pub struct SkipIf {
    pub id: u8,
    #[serde(skip_serializing_if = "Option::is_none")]
    pub extra: Option<u32>,
    pub tail: u16,
}
#[derive(Serialize, MaxSize, Debug, Clone, PartialEq)]
pub struct SkipDe {
    pub id: u8,
    #[serde(skip_deserializing)]
    pub cache: u64,
}
#[derive(Serialize, MaxSize, Debug, Clone, PartialEq)]
pub enum SkipVar {
    A {
        #[serde(skip_serializing_if = "is_zero")]
        n: u32,
        m: u8,
    },
    B(#[serde(skip_deserializing)] i64),
}
fn is_zero(n: &u32) -> bool {
    *n == 0
}
impl Gen for SkipIf {
    fn gen(s: &mut Src) -> Self {
        SkipIf { id: Gen::gen(s), extra: Gen::gen(s), tail: Gen::gen(s) }
    }
    fn extremes() -> Vec<Self> {
        vec![SkipIf { id: 255, extra: Some(u32::MAX), tail: u16::MAX }, SkipIf { id: 0, extra: None, tail: u16::MAX }]
    }
}
impl Gen for SkipDe {
    fn gen(s: &mut Src) -> Self {
        SkipDe { id: Gen::gen(s), cache: Gen::gen(s) }
    }
    fn extremes() -> Vec<Self> {
        vec![SkipDe { id: 255, cache: u64::MAX }]
    }
}
impl Gen for SkipVar {
    fn gen(s: &mut Src) -> Self {
        if s.below(2) == 0 {
            SkipVar::A { n: Gen::gen(s), m: Gen::gen(s) }
        } else {
            SkipVar::B(Gen::gen(s))
        }
    }
    fn extremes() -> Vec<Self> {
        vec![SkipVar::A { n: u32::MAX, m: 255 }, SkipVar::A { n: 0, m: 255 }, SkipVar::B(i64::MIN)]
    }
}

/// explicit discriminants that do not ascend in declaration order (serde numbers variants by position)
#[derive(Serialize, Deserialize, Schema, MaxSize, Debug, Clone, Copy, PartialEq)]
pub enum DiscDesc {
    Halt = 0xff,
    Nop = 0,
    Mid = 7,
    Low = 1,
}
#[derive(Serialize, Deserialize, Schema, MaxSize, Debug, Clone, PartialEq)]
#[repr(u8)]
pub enum DiscData {
    A(u8) = 9,
    B { x: u16 } = 2,
    C = 5,
    D(i64, bool) = 0,
}
/// struct variants that reuse a field name at different types
#[derive(Serialize, Deserialize, Schema, MaxSize, Debug, Clone, PartialEq)]
pub enum SharedNames {
    A { value: u8, id: u16 },
    B { value: u64, id: u16 },
    C { value: (u8, bool) },
    D { id: i8, value: Option<u32> },
}
/// tuple struct / tuple variant wider than the widest plain tuple (6)
#[derive(Serialize, Deserialize, Schema, MaxSize, Debug, Clone, PartialEq)]
pub struct Wide8(pub u8, pub u16, pub bool, pub i32, pub u8, pub u8, pub i64, pub u16);
#[derive(Serialize, Deserialize, Schema, MaxSize, Debug, Clone, PartialEq)]
pub enum WideVar {
    Small(u8),
    Big(u8, u16, u32, u64, i8, i16, i32, i64, bool),
    Same(u8, u8, u8, u8, u8, u8, u8, u16),
}
impl Gen for DiscDesc {
    fn gen(s: &mut Src) -> Self {
        [DiscDesc::Halt, DiscDesc::Nop, DiscDesc::Mid, DiscDesc::Low][s.below(4) as usize]
    }
    fn extremes() -> Vec<Self> {
        vec![DiscDesc::Halt, DiscDesc::Nop, DiscDesc::Mid, DiscDesc::Low]
    }
}
impl Gen for DiscData {
    fn gen(s: &mut Src) -> Self {
        match s.below(4) {
            0 => DiscData::A(Gen::gen(s)),
            1 => DiscData::B { x: Gen::gen(s) },
            2 => DiscData::C,
            _ => DiscData::D(Gen::gen(s), Gen::gen(s)),
        }
    }
    fn extremes() -> Vec<Self> {
        vec![DiscData::A(255), DiscData::B { x: u16::MAX }, DiscData::C, DiscData::D(i64::MIN, true)]
    }
}
impl Gen for SharedNames {
    fn gen(s: &mut Src) -> Self {
        match s.below(4) {
            0 => SharedNames::A { value: Gen::gen(s), id: Gen::gen(s) },
            1 => SharedNames::B { value: Gen::gen(s), id: Gen::gen(s) },
            2 => SharedNames::C { value: Gen::gen(s) },
            _ => SharedNames::D { id: Gen::gen(s), value: Gen::gen(s) },
        }
    }
    fn extremes() -> Vec<Self> {
        vec![
            SharedNames::A { value: 255, id: u16::MAX },
            SharedNames::B { value: u64::MAX, id: u16::MAX },
            SharedNames::C { value: (255, true) },
            SharedNames::D { id: i8::MIN, value: Some(u32::MAX) },
        ]
    }
}
impl Gen for Wide8 {
    fn gen(s: &mut Src) -> Self {
        Wide8(Gen::gen(s), Gen::gen(s), Gen::gen(s), Gen::gen(s), Gen::gen(s), Gen::gen(s), Gen::gen(s), Gen::gen(s))
    }
    fn extremes() -> Vec<Self> {
        vec![Wide8(255, u16::MAX, true, i32::MIN, 255, 255, i64::MIN, u16::MAX)]
    }
}
impl Gen for WideVar {
    fn gen(s: &mut Src) -> Self {
        match s.below(3) {
            0 => WideVar::Small(Gen::gen(s)),
            1 => WideVar::Big(Gen::gen(s), Gen::gen(s), Gen::gen(s), Gen::gen(s), Gen::gen(s), Gen::gen(s), Gen::gen(s), Gen::gen(s), Gen::gen(s)),
            _ => WideVar::Same(Gen::gen(s), Gen::gen(s), Gen::gen(s), Gen::gen(s), Gen::gen(s), Gen::gen(s), Gen::gen(s), Gen::gen(s)),
        }
    }
    fn extremes() -> Vec<Self> {
        vec![
            WideVar::Small(255),
            WideVar::Big(255, u16::MAX, u32::MAX, u64::MAX, i8::MIN, i16::MIN, i32::MIN, i64::MIN, true),
            WideVar::Same(255, 255, 255, 255, 255, 255, 255, u16::MAX),
        ]
    }
}

macro_rules! big_enum {
    ($name:ident, $n:expr, [$($v:ident),*]) => {
        #[derive(Serialize, Deserialize, Schema, MaxSize, Debug, Clone, Copy, PartialEq)]
        pub enum $name { $($v),* }
        impl $name { pub const ALL: &'static [$name] = &[$($name::$v),*]; }
        impl Gen for $name {
            fn gen(s: &mut Src) -> Self { Self::ALL[(s.u64() as usize) % Self::ALL.len()] }
            fn extremes() -> Vec<Self> { vec![*Self::ALL.last().unwrap(), Self::ALL[0]] }
        }
    };
}
big_enum!(E127, 127, [
    V0,V1,V2,V3,V4,V5,V6,V7,V8,V9,V10,V11,V12,V13,V14,V15,V16,V17,V18,V19,V20,V21,V22,V23,V24,V25,V26,V27,V28,V29,V30,V31,
    V32,V33,V34,V35,V36,V37,V38,V39,V40,V41,V42,V43,V44,V45,V46,V47,V48,V49,V50,V51,V52,V53,V54,V55,V56,V57,V58,V59,V60,V61,V62,V63,
    V64,V65,V66,V67,V68,V69,V70,V71,V72,V73,V74,V75,V76,V77,V78,V79,V80,V81,V82,V83,V84,V85,V86,V87,V88,V89,V90,V91,V92,V93,V94,V95,
    V96,V97,V98,V99,V100,V101,V102,V103,V104,V105,V106,V107,V108,V109,V110,V111,V112,V113,V114,V115,V116,V117,V118,V119,V120,V121,V122,V123,V124,V125,V126
]);
big_enum!(E128, 128, [
    V0,V1,V2,V3,V4,V5,V6,V7,V8,V9,V10,V11,V12,V13,V14,V15,V16,V17,V18,V19,V20,V21,V22,V23,V24,V25,V26,V27,V28,V29,V30,V31,
    V32,V33,V34,V35,V36,V37,V38,V39,V40,V41,V42,V43,V44,V45,V46,V47,V48,V49,V50,V51,V52,V53,V54,V55,V56,V57,V58,V59,V60,V61,V62,V63,
    V64,V65,V66,V67,V68,V69,V70,V71,V72,V73,V74,V75,V76,V77,V78,V79,V80,V81,V82,V83,V84,V85,V86,V87,V88,V89,V90,V91,V92,V93,V94,V95,
    V96,V97,V98,V99,V100,V101,V102,V103,V104,V105,V106,V107,V108,V109,V110,V111,V112,V113,V114,V115,V116,V117,V118,V119,V120,V121,V122,V123,V124,V125,V126,V127
]);
big_enum!(E129, 129, [
    V0,V1,V2,V3,V4,V5,V6,V7,V8,V9,V10,V11,V12,V13,V14,V15,V16,V17,V18,V19,V20,V21,V22,V23,V24,V25,V26,V27,V28,V29,V30,V31,
    V32,V33,V34,V35,V36,V37,V38,V39,V40,V41,V42,V43,V44,V45,V46,V47,V48,V49,V50,V51,V52,V53,V54,V55,V56,V57,V58,V59,V60,V61,V62,V63,
    V64,V65,V66,V67,V68,V69,V70,V71,V72,V73,V74,V75,V76,V77,V78,V79,V80,V81,V82,V83,V84,V85,V86,V87,V88,V89,V90,V91,V92,V93,V94,V95,
    V96,V97,V98,V99,V100,V101,V102,V103,V104,V105,V106,V107,V108,V109,V110,V111,V112,V113,V114,V115,V116,V117,V118,V119,V120,V121,V122,V123,V124,V125,V126,V127,V128
]);

/// the published derive re-exported by postcard::experimental::max_size
mod published_derive {
    use super::*;
    use postcard::experimental::max_size::MaxSize;
    #[derive(Serialize, Deserialize, MaxSize, Debug, Clone, PartialEq)]
    pub struct PubStruct {
        pub a: Option<u64>,
        pub b: (i32, char),
        pub c: [u16; 3],
    }
    #[derive(Serialize, Deserialize, MaxSize, Debug, Clone, PartialEq)]
    pub enum PubEnum {
        A,
        B(u128),
        C { x: i8, y: f64 },
    }
    impl Gen for PubStruct {
        fn gen(s: &mut Src) -> Self {
            PubStruct { a: Gen::gen(s), b: Gen::gen(s), c: Gen::gen(s) }
        }
        fn extremes() -> Vec<Self> {
            vec![PubStruct { a: Some(u64::MAX), b: (i32::MIN, '\u{10FFFF}'), c: [u16::MAX; 3] }]
        }
    }
    impl Gen for PubEnum {
        fn gen(s: &mut Src) -> Self {
            match s.below(3) {
                0 => PubEnum::A,
                1 => PubEnum::B(Gen::gen(s)),
                _ => PubEnum::C { x: Gen::gen(s), y: Gen::gen(s) },
            }
        }
        fn extremes() -> Vec<Self> {
            vec![PubEnum::B(u128::MAX), PubEnum::A, PubEnum::C { x: -1, y: 1.0 }]
        }
    }
}
pub use published_derive::{PubEnum, PubStruct};

// ------------------------------------------------------------------ registry


/// `#[repr(u8)]` says nothing about the wire: variant indices are varint(u32), so index >= 128 takes two bytes
#[derive(Serialize, Deserialize, Schema, MaxSize, Debug, Clone, Copy, PartialEq)]
#[repr(u8)]
pub enum ReprU8Wide { W0,W1,W2,W3,W4,W5,W6,W7,W8,W9,W10,W11,W12,W13,W14,W15,W16,W17,W18,W19,W20,W21,W22,W23,W24,W25,W26,W27,W28,W29,W30,W31,W32,W33,W34,W35,W36,W37,W38,W39,W40,W41,W42,W43,W44,W45,W46,W47,W48,W49,W50,W51,W52,W53,W54,W55,W56,W57,W58,W59,W60,W61,W62,W63,W64,W65,W66,W67,W68,W69,W70,W71,W72,W73,W74,W75,W76,W77,W78,W79,W80,W81,W82,W83,W84,W85,W86,W87,W88,W89,W90,W91,W92,W93,W94,W95,W96,W97,W98,W99,W100,W101,W102,W103,W104,W105,W106,W107,W108,W109,W110,W111,W112,W113,W114,W115,W116,W117,W118,W119,W120,W121,W122,W123,W124,W125,W126,W127,W128,W129,W130,W131,W132,W133,W134,W135,W136,W137,W138,W139,W140,W141,W142,W143,W144,W145,W146,W147,W148,W149,W150,W151,W152,W153,W154,W155,W156,W157,W158,W159,W160,W161,W162,W163,W164,W165,W166,W167,W168,W169,W170,W171,W172,W173,W174,W175,W176,W177,W178,W179,W180,W181,W182,W183,W184,W185,W186,W187,W188,W189,W190,W191,W192,W193,W194,W195,W196,W197,W198,W199 }
impl ReprU8Wide { pub const ALL: &'static [ReprU8Wide] = &[ReprU8Wide::W0,ReprU8Wide::W1,ReprU8Wide::W2,ReprU8Wide::W3,ReprU8Wide::W4,ReprU8Wide::W5,ReprU8Wide::W6,ReprU8Wide::W7,ReprU8Wide::W8,ReprU8Wide::W9,ReprU8Wide::W10,ReprU8Wide::W11,ReprU8Wide::W12,ReprU8Wide::W13,ReprU8Wide::W14,ReprU8Wide::W15,ReprU8Wide::W16,ReprU8Wide::W17,ReprU8Wide::W18,ReprU8Wide::W19,ReprU8Wide::W20,ReprU8Wide::W21,ReprU8Wide::W22,ReprU8Wide::W23,ReprU8Wide::W24,ReprU8Wide::W25,ReprU8Wide::W26,ReprU8Wide::W27,ReprU8Wide::W28,ReprU8Wide::W29,ReprU8Wide::W30,ReprU8Wide::W31,ReprU8Wide::W32,ReprU8Wide::W33,ReprU8Wide::W34,ReprU8Wide::W35,ReprU8Wide::W36,ReprU8Wide::W37,ReprU8Wide::W38,ReprU8Wide::W39,ReprU8Wide::W40,ReprU8Wide::W41,ReprU8Wide::W42,ReprU8Wide::W43,ReprU8Wide::W44,ReprU8Wide::W45,ReprU8Wide::W46,ReprU8Wide::W47,ReprU8Wide::W48,ReprU8Wide::W49,ReprU8Wide::W50,ReprU8Wide::W51,ReprU8Wide::W52,ReprU8Wide::W53,ReprU8Wide::W54,ReprU8Wide::W55,ReprU8Wide::W56,ReprU8Wide::W57,ReprU8Wide::W58,ReprU8Wide::W59,ReprU8Wide::W60,ReprU8Wide::W61,ReprU8Wide::W62,ReprU8Wide::W63,ReprU8Wide::W64,ReprU8Wide::W65,ReprU8Wide::W66,ReprU8Wide::W67,ReprU8Wide::W68,ReprU8Wide::W69,ReprU8Wide::W70,ReprU8Wide::W71,ReprU8Wide::W72,ReprU8Wide::W73,ReprU8Wide::W74,ReprU8Wide::W75,ReprU8Wide::W76,ReprU8Wide::W77,ReprU8Wide::W78,ReprU8Wide::W79,ReprU8Wide::W80,ReprU8Wide::W81,ReprU8Wide::W82,ReprU8Wide::W83,ReprU8Wide::W84,ReprU8Wide::W85,ReprU8Wide::W86,ReprU8Wide::W87,ReprU8Wide::W88,ReprU8Wide::W89,ReprU8Wide::W90,ReprU8Wide::W91,ReprU8Wide::W92,ReprU8Wide::W93,ReprU8Wide::W94,ReprU8Wide::W95,ReprU8Wide::W96,ReprU8Wide::W97,ReprU8Wide::W98,ReprU8Wide::W99,ReprU8Wide::W100,ReprU8Wide::W101,ReprU8Wide::W102,ReprU8Wide::W103,ReprU8Wide::W104,ReprU8Wide::W105,ReprU8Wide::W106,ReprU8Wide::W107,ReprU8Wide::W108,ReprU8Wide::W109,ReprU8Wide::W110,ReprU8Wide::W111,ReprU8Wide::W112,ReprU8Wide::W113,ReprU8Wide::W114,ReprU8Wide::W115,ReprU8Wide::W116,ReprU8Wide::W117,ReprU8Wide::W118,ReprU8Wide::W119,ReprU8Wide::W120,ReprU8Wide::W121,ReprU8Wide::W122,ReprU8Wide::W123,ReprU8Wide::W124,ReprU8Wide::W125,ReprU8Wide::W126,ReprU8Wide::W127,ReprU8Wide::W128,ReprU8Wide::W129,ReprU8Wide::W130,ReprU8Wide::W131,ReprU8Wide::W132,ReprU8Wide::W133,ReprU8Wide::W134,ReprU8Wide::W135,ReprU8Wide::W136,ReprU8Wide::W137,ReprU8Wide::W138,ReprU8Wide::W139,ReprU8Wide::W140,ReprU8Wide::W141,ReprU8Wide::W142,ReprU8Wide::W143,ReprU8Wide::W144,ReprU8Wide::W145,ReprU8Wide::W146,ReprU8Wide::W147,ReprU8Wide::W148,ReprU8Wide::W149,ReprU8Wide::W150,ReprU8Wide::W151,ReprU8Wide::W152,ReprU8Wide::W153,ReprU8Wide::W154,ReprU8Wide::W155,ReprU8Wide::W156,ReprU8Wide::W157,ReprU8Wide::W158,ReprU8Wide::W159,ReprU8Wide::W160,ReprU8Wide::W161,ReprU8Wide::W162,ReprU8Wide::W163,ReprU8Wide::W164,ReprU8Wide::W165,ReprU8Wide::W166,ReprU8Wide::W167,ReprU8Wide::W168,ReprU8Wide::W169,ReprU8Wide::W170,ReprU8Wide::W171,ReprU8Wide::W172,ReprU8Wide::W173,ReprU8Wide::W174,ReprU8Wide::W175,ReprU8Wide::W176,ReprU8Wide::W177,ReprU8Wide::W178,ReprU8Wide::W179,ReprU8Wide::W180,ReprU8Wide::W181,ReprU8Wide::W182,ReprU8Wide::W183,ReprU8Wide::W184,ReprU8Wide::W185,ReprU8Wide::W186,ReprU8Wide::W187,ReprU8Wide::W188,ReprU8Wide::W189,ReprU8Wide::W190,ReprU8Wide::W191,ReprU8Wide::W192,ReprU8Wide::W193,ReprU8Wide::W194,ReprU8Wide::W195,ReprU8Wide::W196,ReprU8Wide::W197,ReprU8Wide::W198,ReprU8Wide::W199]; }
impl Gen for ReprU8Wide {
    fn gen(s: &mut Src) -> Self { Self::ALL[(s.u64() as usize) % Self::ALL.len()] }
    fn extremes() -> Vec<Self> { vec![*Self::ALL.last().unwrap(), Self::ALL[0], Self::ALL[127], Self::ALL[128]] }
}

macro_rules! full {
    // schema + maxsize(tight) + deserialize-owned + json-faithful
    ($v:ident, $t:ty, tight) => { $v.push(base::<$t>(stringify!($t)).schema::<$t>().max::<$t>(true).de::<$t>().json()); };
    ($v:ident, $t:ty, bounded) => { $v.push(base::<$t>(stringify!($t)).schema::<$t>().max::<$t>(false).de::<$t>().json()); };
    ($v:ident, $t:ty, schema) => { $v.push(base::<$t>(stringify!($t)).schema::<$t>().de::<$t>().json()); };
    ($v:ident, $t:ty, schema_nojson) => { $v.push(base::<$t>(stringify!($t)).schema::<$t>().de::<$t>()); };
    ($v:ident, $t:ty, max_tight) => { $v.push(base::<$t>(stringify!($t)).max::<$t>(true).de::<$t>()); };
    ($v:ident, $t:ty, max_bounded) => { $v.push(base::<$t>(stringify!($t)).max::<$t>(false).de::<$t>()); };
}

pub fn types() -> Vec<CorpusType> {
    let mut v: Vec<CorpusType> = vec![];
    // integers, floats, bool, char, unit
    full!(v, bool, tight);
    full!(v, u8, tight);
    full!(v, u16, tight);
    full!(v, u32, tight);
    full!(v, u64, tight);
    full!(v, u128, tight);
    full!(v, i8, tight);
    full!(v, i16, tight);
    full!(v, i32, tight);
    full!(v, i64, tight);
    full!(v, i128, tight);
    full!(v, f32, tight);
    full!(v, f64, tight);
    full!(v, char, tight);
    full!(v, (), tight);
    full!(v, usize, max_tight);
    full!(v, isize, max_tight);
    // NonZero*
    full!(v, NonZeroU8, tight);
    full!(v, NonZeroU16, tight);
    full!(v, NonZeroU32, tight);
    full!(v, NonZeroU64, tight);
    full!(v, NonZeroU128, tight);
    full!(v, NonZeroI8, tight);
    full!(v, NonZeroI16, tight);
    full!(v, NonZeroI32, tight);
    full!(v, NonZeroI64, tight);
    full!(v, NonZeroI128, tight);
    full!(v, NonZeroUsize, max_tight);
    full!(v, NonZeroIsize, max_tight);
    // options, results, arrays, tuples
    full!(v, Option<u32>, tight);
    full!(v, Option<Option<i16>>, schema_nojson);
    v.push(base::<Option<Option<i16>>>("Option<Option<i16>> (max)").max::<Option<Option<i16>>>(true));
    full!(v, Option<char>, tight);
    full!(v, Option<(u8, i64)>, tight);
    full!(v, Result<u8, String>, schema);
    full!(v, Result<u64, i8>, bounded);
    full!(v, Result<(), ()>, schema_nojson);
    v.push(base::<Result<(), ()>>("Result<(),()> (max)").max::<Result<(), ()>>(false));
    full!(v, [u8; 0], tight);
    v.push(base::<[u32; 1]>("[u32; 1]").schema::<[u32; 1]>().max::<[u32; 1]>(true).de::<[u32; 1]>());
    full!(v, [i64; 2], tight);
    full!(v, [char; 32], tight);
    full!(v, [Option<u16>; 3], tight);
    v.push(base::<(u64,)>("(u64,)").schema::<(u64,)>().max::<(u64,)>(true).de::<(u64,)>());
    full!(v, (u8, i16), tight);
    full!(v, (bool, u32, f32), tight);
    full!(v, (u8, u16, u32, u64), tight);
    full!(v, (i8, i16, i32, i64, i128), tight);
    full!(v, (char, bool, (), f64, u128, Option<u8>), tight);
    // ranges
    full!(v, Range<u32>, bounded);
    full!(v, RangeInclusive<i16>, bounded);
    full!(v, RangeFrom<u64>, bounded);
    full!(v, RangeTo<u8>, bounded);
    // smart pointers, phantom
    full!(v, Box<u64>, max_bounded);
    full!(v, Rc<i32>, max_bounded);
    full!(v, Arc<(u8, u16)>, max_bounded);
    full!(v, Box<Option<[u32; 2]>>, max_bounded);
    v.push(base::<std::marker::PhantomData<u64>>("PhantomData<u64>").max::<std::marker::PhantomData<u64>>(true));
    // strings, collections
    full!(v, String, schema);
    full!(v, PathBuf, schema);
    full!(v, Vec<u8>, schema);
    full!(v, Vec<u64>, schema);
    full!(v, Vec<String>, schema);
    full!(v, Vec<Option<(u8, char)>>, schema);
    full!(v, Vec<Vec<i32>>, schema);
    v.push(base::<VecDeque<u32>>("VecDeque<u32>").de::<VecDeque<u32>>());
    full!(v, BTreeSet<u16>, schema);
    // hash-ordered containers re-encode in a different order: no byte-level round-trip entry
    v.push(base::<HashSet<u16>>("HashSet<u16>").schema::<HashSet<u16>>());
    full!(v, BTreeMap<String, i64>, schema);
    full!(v, BTreeMap<String, Vec<u8>>, schema);
    v.push(base::<HashMap<String, i64>>("HashMap<String,i64>").schema::<HashMap<String, i64>>());
    v.push(base::<std::ffi::CString>("CString").de::<std::ffi::CString>());
    // heapless 0.7 (postcard's own MaxSize + schema) and 0.8 (schema)
    v.push(base::<heapless07::Vec<u8, 0>>("heapless07::Vec<u8,0>").schema::<heapless07::Vec<u8, 0>>().max::<heapless07::Vec<u8, 0>>(true).de::<heapless07::Vec<u8, 0>>().json());
    v.push(base::<heapless07::Vec<u8, 1>>("heapless07::Vec<u8,1>").schema::<heapless07::Vec<u8, 1>>().max::<heapless07::Vec<u8, 1>>(true).de::<heapless07::Vec<u8, 1>>().json());
    v.push(base::<heapless07::Vec<u16, 127>>("heapless07::Vec<u16,127>").schema::<heapless07::Vec<u16, 127>>().max::<heapless07::Vec<u16, 127>>(true).de::<heapless07::Vec<u16, 127>>().json());
    v.push(base::<heapless07::Vec<u64, 128>>("heapless07::Vec<u64,128>").schema::<heapless07::Vec<u64, 128>>().max::<heapless07::Vec<u64, 128>>(true).de::<heapless07::Vec<u64, 128>>().json());
    v.push(base::<heapless07::Vec<u8, 16383>>("heapless07::Vec<u8,16383>").max::<heapless07::Vec<u8, 16383>>(true));
    v.push(base::<heapless07::Vec<u8, 16384>>("heapless07::Vec<u8,16384>").max::<heapless07::Vec<u8, 16384>>(true));
    v.push(base::<heapless07::Vec<Option<i32>, 5>>("heapless07::Vec<Option<i32>,5>").schema::<heapless07::Vec<Option<i32>, 5>>().max::<heapless07::Vec<Option<i32>, 5>>(true).de::<heapless07::Vec<Option<i32>, 5>>().json());
    v.push(base::<heapless07::String<0>>("heapless07::String<0>").schema::<heapless07::String<0>>().max::<heapless07::String<0>>(true).de::<heapless07::String<0>>().json());
    v.push(base::<heapless07::String<1>>("heapless07::String<1>").schema::<heapless07::String<1>>().max::<heapless07::String<1>>(true).de::<heapless07::String<1>>().json());
    v.push(base::<heapless07::String<127>>("heapless07::String<127>").schema::<heapless07::String<127>>().max::<heapless07::String<127>>(true).de::<heapless07::String<127>>().json());
    v.push(base::<heapless07::String<128>>("heapless07::String<128>").schema::<heapless07::String<128>>().max::<heapless07::String<128>>(true).de::<heapless07::String<128>>().json());
    v.push(base::<heapless07::String<16383>>("heapless07::String<16383>").max::<heapless07::String<16383>>(true));
    v.push(base::<heapless07::String<16384>>("heapless07::String<16384>").max::<heapless07::String<16384>>(true));
    v.push(base::<heapless08::Vec<u32, 8>>("heapless08::Vec<u32,8>").schema::<heapless08::Vec<u32, 8>>().de::<heapless08::Vec<u32, 8>>().json());
    v.push(base::<heapless08::String<16>>("heapless08::String<16>").schema::<heapless08::String<16>>().de::<heapless08::String<16>>().json());
    // capacities whose length prefix sits at a varint boundary (zero-sized elements keep them cheap)
    v.push(base::<heapless07::Vec<(), 127>>("heapless07::Vec<(),127>").max::<heapless07::Vec<(), 127>>(true));
    v.push(base::<heapless07::Vec<(), 128>>("heapless07::Vec<(),128>").max::<heapless07::Vec<(), 128>>(true));
    v.push(base::<heapless07::Vec<(), 16383>>("heapless07::Vec<(),16383>").max::<heapless07::Vec<(), 16383>>(true));
    v.push(base::<heapless07::Vec<(), 16384>>("heapless07::Vec<(),16384>").max::<heapless07::Vec<(), 16384>>(true));
    v.push(base::<heapless07::Vec<(), 2097151>>("heapless07::Vec<(),2097151>").max::<heapless07::Vec<(), 2097151>>(true));
    v.push(base::<heapless07::Vec<(), 2097152>>("heapless07::Vec<(),2097152>").max::<heapless07::Vec<(), 2097152>>(true));
    v.push(base::<heapless07::Vec<(), 3000000>>("heapless07::Vec<(),3000000>").max::<heapless07::Vec<(), 3000000>>(true));
    v.push(base::<heapless07::Vec<(), 4194303>>("heapless07::Vec<(),4194303>").max::<heapless07::Vec<(), 4194303>>(true));
    v.push(base::<heapless07::Vec<(), 4194304>>("heapless07::Vec<(),4194304>").max::<heapless07::Vec<(), 4194304>>(true));
    // elements that are zero-sized in memory but not on the wire, handed to the serializer by reference
    v.push(base::<heapless07::Vec<OneVariant, 4>>("heapless07::Vec<OneVariant,4>").schema::<heapless07::Vec<OneVariant, 4>>().max::<heapless07::Vec<OneVariant, 4>>(true).de::<heapless07::Vec<OneVariant, 4>>().json());
    v.push(base::<Vec<OneVariant>>("Vec<OneVariant>").schema::<Vec<OneVariant>>().de::<Vec<OneVariant>>().json());
    v.push(base::<[OneVariant; 3]>("[OneVariant; 3]").schema::<[OneVariant; 3]>().max::<[OneVariant; 3]>(true).de::<[OneVariant; 3]>().json());
    v.push(base::<heapless07::Vec<UnitS, 3>>("heapless07::Vec<UnitS,3>").schema::<heapless07::Vec<UnitS, 3>>().de::<heapless07::Vec<UnitS, 3>>());
    full!(v, WideEnum, bounded);
    full!(v, Calibration, bounded);
    full!(v, ReprU8Wide, bounded);
    full!(v, DiscDesc, bounded);
    full!(v, DiscData, bounded);
    full!(v, SharedNames, bounded);
    full!(v, Wide8, bounded);
    full!(v, WideVar, bounded);
    full!(v, RawVar, bounded);
    full!(v, ReprT, bounded);
    full!(v, ReprTN, bounded);
    full!(v, ReprTG<u16>, bounded);
    full!(v, ReprTG<(u8, String)>, schema);
    full!(v, ReprU8, bounded);
    full!(v, ReprC, bounded);
    v.push(base::<SkipIf>("SkipIf").max::<SkipIf>(false));
    v.push(base::<SkipDe>("SkipDe").max::<SkipDe>(false));
    v.push(base::<SkipVar>("SkipVar").max::<SkipVar>(false));
    full!(v, TrailingCommaS, bounded);
    full!(v, TrailingCommaE, bounded);
    full!(v, Result<u8, u64>, bounded);
    full!(v, Result<(), u32>, bounded);
    full!(v, Result<bool, (u64, i128)>, bounded);
    // tuples whose first and last element are the same type (one shared SCHEMA constant) around a different one
    full!(v, (u8, u16, u8), tight);
    full!(v, (f32, String, f32), schema);
    full!(v, (Option<u8>, bool, char, Option<u8>), tight);
    // types that choose their representation by is_human_readable()
    v.push(base::<std::net::Ipv4Addr>("Ipv4Addr").de::<std::net::Ipv4Addr>());
    v.push(base::<std::net::Ipv6Addr>("Ipv6Addr").de::<std::net::Ipv6Addr>());
    v.push(base::<std::net::SocketAddr>("SocketAddr").de::<std::net::SocketAddr>());
    v.push(base::<BorrowedS<'static>>("BorrowedS<'a>").schema::<BorrowedS<'static>>().json());
    full!(v, ConstGen<0>, bounded);
    full!(v, ConstGen<3>, bounded);
    full!(v, ConstGen<40>, bounded);
    // third-party impls
    full!(v, uuid::Uuid, schema_nojson);
    full!(v, chrono::DateTime<chrono::Utc>, schema);
    full!(v, chrono::DateTime<chrono::FixedOffset>, schema);
    v.push(base::<nalgebra::SMatrix<u8, 3, 3>>("SMatrix<u8,3,3>").schema::<nalgebra::SMatrix<u8, 3, 3>>().de::<nalgebra::SMatrix<u8, 3, 3>>().json());
    v.push(base::<nalgebra::SMatrix<f32, 2, 4>>("SMatrix<f32,2,4>").schema::<nalgebra::SMatrix<f32, 2, 4>>().de::<nalgebra::SMatrix<f32, 2, 4>>().json());
    v.push(base::<nalgebra::SMatrix<i64, 1, 2>>("SMatrix<i64,1,2>").schema::<nalgebra::SMatrix<i64, 1, 2>>().de::<nalgebra::SMatrix<i64, 1, 2>>().json());
    v.push(base::<nalgebra::SMatrix<u16, 4, 1>>("SMatrix<u16,4,1>").schema::<nalgebra::SMatrix<u16, 4, 1>>().de::<nalgebra::SMatrix<u16, 4, 1>>().json());
    full!(v, Key, schema);
    full!(v, OwnedDataModelType, schema_nojson);
    v.push(base::<StaticSchema>("&'static DataModelType").schema::<StaticSchema>());
    // user types
    full!(v, Demo, bounded);
    full!(v, UnitS, bounded);
    full!(v, NewtypeS, bounded);
    full!(v, TupleS, bounded);
    full!(v, EmptyTupleS, bounded);
    full!(v, EmptyNamedS, bounded);
    full!(v, AllForms, bounded);
    full!(v, Generic<u16, String>, schema);
    full!(v, Generic<Option<i8>, (u8, f64)>, schema_nojson);
    full!(v, Tree2, schema);
    full!(v, E127, bounded);
    full!(v, E128, bounded);
    full!(v, E129, bounded);
    full!(v, PubStruct, max_bounded);
    full!(v, PubEnum, max_bounded);
    v
}
