//! Check runner: parallel proptest workers, exhaustive range sweeps, evidence, replay files,
//! known findings, crash (signal) reporting. DESIGN.md §2.

use proptest::strategy::{Strategy, ValueTree};
use proptest::test_runner::{Config, RngAlgorithm, TestCaseError, TestError, TestRng, TestRunner};
use serde_json::{json, Value as Json};
use std::cell::RefCell;
use std::collections::{BTreeMap, HashSet};
use std::hash::{Hash, Hasher};
use std::path::{Path, PathBuf};
use std::sync::atomic::{AtomicBool, AtomicU64, Ordering};
use std::sync::Mutex;
use std::time::Instant;

#[derive(Clone, Copy, Debug, PartialEq, Eq)]
pub enum Tier {
    Quick,
    Thorough,
}

impl Tier {
    pub fn name(&self) -> &'static str {
        match self {
            Tier::Quick => "quick",
            Tier::Thorough => "thorough",
        }
    }
    /// pick by tier
    pub fn pick<T>(&self, quick: T, thorough: T) -> T {
        match self {
            Tier::Quick => quick,
            Tier::Thorough => thorough,
        }
    }
}

/// A failed case: message, replayable case (JSON with a "check" key) and an optional signature
/// used to match known findings.
#[derive(Clone, Debug)]
pub struct Fail {
    pub msg: String,
    pub case: Json,
    pub signature: Option<String>,
}

pub type CaseResult = Result<(), Fail>;

pub fn fail(check: &str, msg: impl Into<String>, mut case: Json) -> Fail {
    if let Json::Object(m) = &mut case {
        m.insert("check".into(), Json::String(check.into()));
    }
    Fail {
        msg: msg.into(),
        case,
        signature: None,
    }
}

impl Fail {
    pub fn sig(mut self, s: impl Into<String>) -> Fail {
        self.signature = Some(s.into());
        self
    }
}

pub const NONTRIVIAL_CAP_PER_WORKER: usize = 1_500_000;

/// Per-worker statistics, merged into the evidence at the end.
#[derive(Default)]
pub struct Local {
    pub evals: u64,
    pub nontrivial: HashSet<u64>,
    /// distinct-by-construction non-trivial cases (exhaustive enumerations)
    pub nontrivial_enum: u64,
    /// non-trivial cases not hashed because the per-worker cap was reached
    pub nontrivial_dropped: u64,
    pub classes: BTreeMap<String, u64>,
    pub samples: Vec<String>,
    pub excluded_known: u64,
    pub skipped: u64,
    pub counting: bool,
    sample_stride: u64,
}

impl Local {
    pub fn new() -> Local {
        Local {
            counting: true,
            sample_stride: 1,
            ..Default::default()
        }
    }
    #[inline]
    pub fn eval(&mut self) {
        if self.counting {
            self.evals += 1;
        }
    }
    #[inline]
    pub fn evals_n(&mut self, n: u64) {
        if self.counting {
            self.evals += n;
        }
    }
    /// Record a distinct non-trivial case by hash of its canonical form.
    #[inline]
    pub fn nontrivial<H: Hash>(&mut self, h: &H) {
        if self.counting {
            // bounded memory: beyond the cap further cases are not recorded (the reported count
            // is then a lower bound, see `distinct_nontrivial_not_recorded`)
            if self.nontrivial.len() >= NONTRIVIAL_CAP_PER_WORKER {
                self.nontrivial_dropped += 1;
                return;
            }
            let mut s = std::collections::hash_map::DefaultHasher::new();
            h.hash(&mut s);
            self.nontrivial.insert(s.finish());
        }
    }
    #[inline]
    pub fn nontrivial_enum(&mut self, n: u64) {
        if self.counting {
            self.nontrivial_enum += n;
        }
    }
    #[inline]
    pub fn class(&mut self, c: &str) {
        if self.counting {
            *self.classes.entry(c.to_string()).or_insert(0) += 1;
        }
    }
    #[inline]
    pub fn class_n(&mut self, c: &str, n: u64) {
        if self.counting && n > 0 {
            *self.classes.entry(c.to_string()).or_insert(0) += n;
        }
    }
    /// Keep the first few and then exponentially sparser samples.
    pub fn sample(&mut self, f: impl FnOnce() -> String) {
        if !self.counting {
            return;
        }
        if self.samples.len() < 6 || (self.evals % self.sample_stride == 0 && self.samples.len() < 14) {
            let mut s = f();
            if s.len() > 600 {
                let mut cut = 600;
                while !s.is_char_boundary(cut) {
                    cut -= 1;
                }
                s.truncate(cut);
                s.push('…');
            }
            self.samples.push(s);
            self.sample_stride = (self.sample_stride * 7).max(7);
        }
    }
    fn merge(&mut self, o: Local) {
        self.evals += o.evals;
        self.nontrivial_enum += o.nontrivial_enum;
        self.nontrivial_dropped += o.nontrivial_dropped;
        if self.nontrivial.len() > 40_000_000 {
            // keep the merged set bounded as well (the count stays a lower bound)
            self.nontrivial_dropped += o.nontrivial.len() as u64;
        } else {
            self.nontrivial.extend(o.nontrivial);
        }
        for (k, v) in o.classes {
            *self.classes.entry(k).or_insert(0) += v;
        }
        for s in o.samples {
            if self.samples.len() < 24 {
                self.samples.push(s);
            }
        }
        self.excluded_known += o.excluded_known;
        self.skipped += o.skipped;
    }
}

#[derive(Clone, Debug)]
pub struct KnownFinding {
    pub property: String,
    pub signature: String,
    pub status: String,
    pub what: String,
}

pub struct Ctx {
    pub prop: &'static str,
    pub tier: Tier,
    pub seed: u64,
    pub workers: usize,
    pub verif_dir: PathBuf,
    pub strict: bool,
    total: Mutex<Local>,
    pub rule: Mutex<String>,
    pub assumptions: Mutex<Vec<String>>,
    pub exhaustive_subdomains: Mutex<Vec<String>>,
    pub subchecks: Mutex<Vec<Json>>,
    pub violations: Mutex<Vec<(String, String)>>,
    pub known_printed: Mutex<HashSet<String>>,
    pub known: Vec<KnownFinding>,
    pub inconclusive: Mutex<Vec<String>>,
    pub extra: Mutex<BTreeMap<String, Json>>,
    samples_per_family: Mutex<BTreeMap<String, usize>>,
    start: Instant,
    stop: AtomicBool,
    replay_counter: AtomicU64,
}

fn seed_mix(seed: u64, prop: &str, name: &str, worker: u64) -> [u8; 32] {
    // splitmix-style expansion of a hash of the inputs; deterministic, no clock
    let mut h = std::collections::hash_map::DefaultHasher::new();
    seed.hash(&mut h);
    prop.hash(&mut h);
    name.hash(&mut h);
    worker.hash(&mut h);
    let mut x = h.finish() ^ 0x9E37_79B9_7F4A_7C15;
    let mut out = [0u8; 32];
    for chunk in out.chunks_mut(8) {
        x = x.wrapping_add(0x9E37_79B9_7F4A_7C15);
        let mut z = x;
        z = (z ^ (z >> 30)).wrapping_mul(0xBF58_476D_1CE4_E5B9);
        z = (z ^ (z >> 27)).wrapping_mul(0x94D0_49BB_1331_11EB);
        z ^= z >> 31;
        chunk.copy_from_slice(&z.to_le_bytes());
    }
    out
}

thread_local! {
    static LAST_PANIC: RefCell<Option<String>> = RefCell::new(None);
}

pub fn install_quiet_panic_hook() {
    std::panic::set_hook(Box::new(|info| {
        let loc = info
            .location()
            .map(|l| format!("{}:{}", l.file(), l.line()))
            .unwrap_or_default();
        let msg = if let Some(s) = info.payload().downcast_ref::<&str>() {
            s.to_string()
        } else if let Some(s) = info.payload().downcast_ref::<String>() {
            s.clone()
        } else {
            "panic".to_string()
        };
        LAST_PANIC.with(|p| *p.borrow_mut() = Some(format!("{} @ {}", msg, loc)));
        if std::env::var_os("PCV_PANIC_VERBOSE").is_some() {
            eprintln!("panic: {} @ {}", msg, loc);
        }
    }));
}

/// Run the code under test, turning a panic into Err(description incl. location).
pub fn no_panic<R>(f: impl FnOnce() -> R) -> Result<R, String> {
    match std::panic::catch_unwind(std::panic::AssertUnwindSafe(f)) {
        Ok(r) => Ok(r),
        Err(_) => Err(LAST_PANIC
            .with(|p| p.borrow_mut().take())
            .unwrap_or_else(|| "panic".into())),
    }
}

/// location part ("file:line") of a message produced by no_panic
pub fn panic_site(msg: &str) -> String {
    let loc = msg.rsplit(" @ ").next().unwrap_or("");
    // strip directories up to "source/" so signatures are stable across checkouts
    match loc.find("source/") {
        Some(i) => loc[i..].to_string(),
        None => loc.to_string(),
    }
}

impl Ctx {
    pub fn new(prop: &'static str, tier: Tier, seed: u64, verif_dir: PathBuf) -> Ctx {
        let known = load_known(&verif_dir);
        let workers = std::env::var("PCV_WORKERS")
            .ok()
            .and_then(|s| s.parse().ok())
            .unwrap_or(16);
        Ctx {
            prop,
            tier,
            seed,
            workers,
            verif_dir,
            strict: std::env::var_os("PCV_STRICT").is_some(),
            total: Mutex::new(Local::new()),
            rule: Mutex::new(String::new()),
            assumptions: Mutex::new(vec![]),
            exhaustive_subdomains: Mutex::new(vec![]),
            subchecks: Mutex::new(vec![]),
            violations: Mutex::new(vec![]),
            known_printed: Mutex::new(HashSet::new()),
            known,
            inconclusive: Mutex::new(vec![]),
            extra: Mutex::new(BTreeMap::new()),
            samples_per_family: Mutex::new(BTreeMap::new()),
            start: Instant::now(),
            stop: AtomicBool::new(false),
            replay_counter: AtomicU64::new(0),
        }
    }

    pub fn set_rule(&self, r: &str) {
        *self.rule.lock().unwrap() = r.to_string();
    }
    pub fn assume(&self, a: &str) {
        self.assumptions.lock().unwrap().push(a.to_string());
    }
    pub fn exhausted(&self, s: &str) {
        self.exhaustive_subdomains.lock().unwrap().push(s.to_string());
    }
    pub fn has_violation(&self) -> bool {
        !self.violations.lock().unwrap().is_empty()
    }
    pub fn merge(&self, l: Local) {
        self.total.lock().unwrap().merge(l);
    }
    /// merge, keeping a few samples per generator family so the evidence shows all of them
    pub fn merge_named(&self, name: &str, mut l: Local) {
        let mut taken: Vec<String> = vec![];
        {
            let mut per = self.samples_per_family.lock().unwrap();
            let have = per.entry(name.to_string()).or_insert(0);
            // spread: first, middle and last of what the worker kept
            let n = l.samples.len();
            let picks: Vec<usize> = if n <= 2 { (0..n).collect() } else { vec![0, n / 2, n - 1] };
            for i in picks {
                if *have < 4 {
                    taken.push(format!("[{}] {}", name, l.samples[i]));
                    *have += 1;
                }
            }
        }
        l.samples = taken;
        let mut t = self.total.lock().unwrap();
        let keep: Vec<String> = std::mem::take(&mut l.samples);
        t.merge(l);
        if t.samples.len() < 60 {
            t.samples.extend(keep);
        }
    }
    pub fn is_known_open(&self, sig: &str) -> Option<&KnownFinding> {
        self.known
            .iter()
            .find(|k| k.property == self.prop && k.status == "open" && k.signature == sig)
    }

    /// Report a failure: known finding -> KNOWN-FINDING line; else write replay + VIOLATION.
    pub fn report(&self, f: &Fail) {
        if let Some(sig) = &f.signature {
            if let Some(k) = self.is_known_open(sig) {
                let mut printed = self.known_printed.lock().unwrap();
                if printed.insert(sig.clone()) {
                    println!("KNOWN-FINDING: property={} {} [{}]", self.prop, k.what, sig);
                }
                return;
            }
        }
        let path = self.write_replay(f);
        println!("VIOLATION property={} replay={}", self.prop, path.display());
        eprintln!("  {}", f.msg);
        self.violations
            .lock()
            .unwrap()
            .push((f.msg.clone(), path.display().to_string()));
        self.stop.store(true, Ordering::SeqCst);
    }

    fn write_replay(&self, f: &Fail) -> PathBuf {
        let dir = self.verif_dir.join("replays").join(self.prop).join("found");
        let _ = std::fs::create_dir_all(&dir);
        let mut h = std::collections::hash_map::DefaultHasher::new();
        f.case.to_string().hash(&mut h);
        let n = self.replay_counter.fetch_add(1, Ordering::SeqCst);
        let path = dir.join(format!("{}-{:016x}-{}.json", self.tier.name(), h.finish(), n));
        let doc = json!({
            "property": self.prop,
            "message": f.msg,
            "signature": f.signature,
            "seed": self.seed,
            "case": f.case,
        });
        let _ = std::fs::write(&path, serde_json::to_string_pretty(&doc).unwrap());
        path
    }

    /// Run a proptest strategy on all workers. `mk` builds the strategy per worker;
    /// `test` is the oracle. The first (shrunk) failure is reported.
    pub fn par_proptest<T, S, MK, F>(&self, name: &str, total_cases: u64, mk: MK, test: F)
    where
        T: std::fmt::Debug,
        S: Strategy<Value = T>,
        MK: Fn() -> S + Sync,
        F: Fn(&T, &mut Local) -> CaseResult + Sync,
    {
        let t0 = Instant::now();
        let per = (total_cases + self.workers as u64 - 1) / self.workers as u64;
        let results: Vec<(Local, Option<Fail>, Option<String>)> = std::thread::scope(|sc| {
            let hs: Vec<_> = (0..self.workers)
                .map(|w| {
                    let mk = &mk;
                    let test = &test;
                    std::thread::Builder::new().stack_size(512 << 20).spawn_scoped(sc, move || self.worker_proptest(name, w as u64, per, mk, test)).expect("spawn worker")
                })
                .collect();
            hs.into_iter().map(|h| h.join().expect("worker panicked outside a case")).collect()
        });
        let mut evals = 0;
        let mut first_fail: Option<Fail> = None;
        for (l, f, inc) in results {
            evals += l.evals;
            self.merge_named(name, l);
            if let Some(f) = f {
                if first_fail.is_none() {
                    first_fail = Some(f);
                }
            }
            if let Some(i) = inc {
                self.inconclusive.lock().unwrap().push(format!("{}: {}", name, i));
            }
        }
        self.subchecks.lock().unwrap().push(json!({
            "name": name, "kind": "proptest", "cases_requested": total_cases,
            "evaluations": evals, "wall_s": t0.elapsed().as_secs_f64(),
            "failed": first_fail.is_some(),
        }));
        if let Some(f) = first_fail {
            self.report(&f);
        }
    }

    fn worker_proptest<T, S, MK, F>(
        &self,
        name: &str,
        w: u64,
        cases: u64,
        mk: &MK,
        test: &F,
    ) -> (Local, Option<Fail>, Option<String>)
    where
        T: std::fmt::Debug,
        S: Strategy<Value = T>,
        MK: Fn() -> S + Sync,
        F: Fn(&T, &mut Local) -> CaseResult + Sync,
    {
        let strategy = mk();
        let cfg = Config {
            cases: cases as u32,
            failure_persistence: None,
            max_shrink_iters: 5_000,
            max_global_rejects: 1 << 20,
            max_local_rejects: 1 << 16,
            verbose: 0,
            ..Config::default()
        };
        let rng = TestRng::from_seed(RngAlgorithm::ChaCha, &seed_mix(self.seed, self.prop, name, w));
        let mut runner = TestRunner::new_with_rng(cfg, rng);
        let local = RefCell::new(Local::new());
        let last_fail: RefCell<Option<Fail>> = RefCell::new(None);
        let res = runner.run(&strategy, |v| {
            if self.stop.load(Ordering::Relaxed) && local.borrow().counting {
                // another worker found a violation: finish quickly
                return Ok(());
            }
            let r = {
                let mut l = local.borrow_mut();
                match no_panic(|| test(&v, &mut l)) {
                    Ok(r) => r,
                    Err(p) => Err(Fail {
                        msg: format!("harness or SUT panic outside no_panic: {}", p),
                        case: json!({"check": name, "debug": format!("{:?}", v)}),
                        signature: None,
                    }),
                }
            };
            match r {
                Ok(()) => Ok(()),
                Err(f) => {
                    local.borrow_mut().counting = false;
                    let m = f.msg.clone();
                    *last_fail.borrow_mut() = Some(f);
                    Err(TestCaseError::fail(m))
                }
            }
        });
        let mut local = local.into_inner();
        local.counting = true;
        match res {
            Ok(()) => (local, None, None),
            Err(TestError::Fail(_, minimal)) => {
                // re-run the oracle on the minimal case to get its replayable form
                let mut scratch = Local::new();
                scratch.counting = false;
                let f = match no_panic(|| test(&minimal, &mut scratch)) {
                    Ok(Err(f)) => f,
                    _ => last_fail.into_inner().unwrap_or(Fail {
                        msg: "failure did not reproduce on the shrunk case".into(),
                        case: json!({"check": name, "debug": format!("{:?}", minimal)}),
                        signature: None,
                    }),
                };
                (local, Some(f), None)
            }
            Err(TestError::Abort(r)) => (local, None, Some(format!("proptest abort: {}", r))),
        }
    }

    /// Sweep `0..n` split across workers (exhaustive enumeration or index-driven families).
    pub fn par_range<F>(&self, name: &str, n: u64, test: F)
    where
        F: Fn(u64, &mut Local) -> CaseResult + Sync,
    {
        let t0 = Instant::now();
        let next = AtomicU64::new(0);
        let chunk = ((n / (self.workers as u64 * 64)).max(1)).min(1 << 16);
        let results: Vec<(Local, Option<(u64, Fail)>)> = std::thread::scope(|sc| {
            let hs: Vec<_> = (0..self.workers)
                .map(|_| {
                    let test = &test;
                    let next = &next;
                    std::thread::Builder::new().stack_size(512 << 20).spawn_scoped(sc, move || {
                        let mut local = Local::new();
                        let mut found = None;
                        'outer: loop {
                            let lo = next.fetch_add(chunk, Ordering::Relaxed);
                            if lo >= n || self.stop.load(Ordering::Relaxed) {
                                break;
                            }
                            let hi = (lo + chunk).min(n);
                            for i in lo..hi {
                                let r = match no_panic(|| test(i, &mut local)) {
                                    Ok(r) => r,
                                    Err(p) => Err(Fail {
                                        msg: format!("panic outside no_panic: {}", p),
                                        case: json!({"check": name, "index": i}),
                                        signature: None,
                                    }),
                                };
                                if let Err(f) = r {
                                    found = Some((i, f));
                                    break 'outer;
                                }
                            }
                        }
                        (local, found)
                    })
                    .expect("spawn worker")
                })
                .collect();
            hs.into_iter().map(|h| h.join().expect("worker died")).collect()
        });
        let mut evals = 0;
        let mut best: Option<(u64, Fail)> = None;
        for (l, f) in results {
            evals += l.evals;
            self.merge_named(name, l);
            if let Some((i, f)) = f {
                if best.as_ref().map_or(true, |(bi, _)| i < *bi) {
                    best = Some((i, f));
                }
            }
        }
        self.subchecks.lock().unwrap().push(json!({
            "name": name, "kind": "enumeration", "points": n,
            "evaluations": evals, "wall_s": t0.elapsed().as_secs_f64(),
            "failed": best.is_some(),
        }));
        if let Some((_, f)) = best {
            self.report(&f);
        }
    }

    /// Run one closure serially with its own Local (for small fixed families).
    pub fn serial<F>(&self, name: &str, f: F)
    where
        F: FnOnce(&mut Local) -> CaseResult,
    {
        let t0 = Instant::now();
        let mut local = Local::new();
        let r = match no_panic(|| f(&mut local)) {
            Ok(r) => r,
            Err(p) => Err(Fail {
                msg: format!("panic outside no_panic: {}", p),
                case: json!({"check": name}),
                signature: None,
            }),
        };
        let evals = local.evals;
        self.merge_named(name, local);
        self.subchecks.lock().unwrap().push(json!({
            "name": name, "kind": "serial", "evaluations": evals,
            "wall_s": t0.elapsed().as_secs_f64(), "failed": r.is_err(),
        }));
        if let Err(f) = r {
            self.report(&f);
        }
    }

    pub fn write_evidence(&self) -> std::io::Result<()> {
        let t = self.total.lock().unwrap();
        let distinct = t.nontrivial.len() as u64 + t.nontrivial_enum;
        let viol = self.violations.lock().unwrap();
        let mut coverage = json!({
            "evaluations": t.evals,
            "distinct_nontrivial": distinct,
            "distinct_nontrivial_hashed": t.nontrivial.len(),
            "distinct_nontrivial_enumerated": t.nontrivial_enum,
            "distinct_nontrivial_not_recorded": t.nontrivial_dropped,
            "rule": *self.rule.lock().unwrap(),
            "samples": t.samples,
            "classes": t.classes,
            "exhaustive": false,
            "exhaustive_subdomains": *self.exhaustive_subdomains.lock().unwrap(),
            "excluded_known": t.excluded_known,
            "skipped": t.skipped,
            "subchecks": *self.subchecks.lock().unwrap(),
            "inconclusive": *self.inconclusive.lock().unwrap(),
            "violation_details": viol.iter().map(|(m, p)| json!({"message": m, "replay": p})).collect::<Vec<_>>(),
            "known_findings_printed": self.known_printed.lock().unwrap().iter().cloned().collect::<Vec<_>>(),
        });
        for (k, v) in self.extra.lock().unwrap().iter() {
            coverage[k] = v.clone();
        }
        let doc = json!({
            "property_id": self.prop,
            "tier": self.tier.name(),
            "seed": self.seed,
            "level": "exploration",
            "coverage": coverage,
            "assumptions": *self.assumptions.lock().unwrap(),
            "wall_s": self.start.elapsed().as_secs_f64(),
            "violations": viol.len(),
        });
        let dir = self.verif_dir.join("evidence");
        std::fs::create_dir_all(&dir)?;
        std::fs::write(
            dir.join(format!("{}.json", self.prop)),
            serde_json::to_string_pretty(&doc).unwrap(),
        )
    }
}

fn load_known(verif_dir: &Path) -> Vec<KnownFinding> {
    let p = verif_dir.join("known_findings.json");
    let Ok(s) = std::fs::read_to_string(&p) else {
        return vec![];
    };
    let Ok(j) = serde_json::from_str::<Json>(&s) else {
        return vec![];
    };
    let mut out = vec![];
    if let Some(arr) = j.get("findings").and_then(|a| a.as_array()) {
        for f in arr {
            out.push(KnownFinding {
                property: f["property"].as_str().unwrap_or("").to_string(),
                signature: f["signature"].as_str().unwrap_or("").to_string(),
                status: f["status"].as_str().unwrap_or("").to_string(),
                what: f["what"].as_str().unwrap_or("").to_string(),
            });
        }
    }
    out
}

/// Generate one value from a strategy with a throw-away runner (used by index-driven families).
pub fn sample_once<S: Strategy>(s: &S, seed: u64, name: &str) -> S::Value {
    let rng = TestRng::from_seed(RngAlgorithm::ChaCha, &seed_mix(seed, "sample", name, 0));
    let mut runner = TestRunner::new_with_rng(Config::default(), rng);
    s.new_tree(&mut runner).unwrap().current()
}

pub fn hex(b: &[u8]) -> String {
    let mut s = String::with_capacity(b.len() * 2);
    for x in b {
        s.push_str(&format!("{:02x}", x));
    }
    s
}

pub fn unhex(s: &str) -> Vec<u8> {
    (0..s.len() / 2)
        .map(|i| u8::from_str_radix(&s[2 * i..2 * i + 2], 16).unwrap())
        .collect()
}

// ---------------------------------------------------------------------------------------
// Pending-case buffers + fatal signal handler: if the SUT touches a guard page the handler
// writes the pending cases of all workers to a crash replay file and exits with status 1
// after printing the VIOLATION line.
// ---------------------------------------------------------------------------------------

const PENDING_SLOTS: usize = 64;
const PENDING_CAP: usize = 1 << 16;

struct PendingSlot {
    len: std::sync::atomic::AtomicUsize,
    buf: std::cell::UnsafeCell<[u8; PENDING_CAP]>,
}
unsafe impl Sync for PendingSlot {}

static PENDING: [PendingSlot; PENDING_SLOTS] = {
    const S: PendingSlot = PendingSlot {
        len: std::sync::atomic::AtomicUsize::new(0),
        buf: std::cell::UnsafeCell::new([0u8; PENDING_CAP]),
    };
    [S; PENDING_SLOTS]
};
static NEXT_SLOT: std::sync::atomic::AtomicUsize = std::sync::atomic::AtomicUsize::new(0);
static mut CRASH_PATH: [u8; 512] = [0u8; 512];
static mut CRASH_LINE: [u8; 700] = [0u8; 700];
static mut CRASH_LINE_LEN: usize = 0;

thread_local! {
    static MY_SLOT: usize = NEXT_SLOT.fetch_add(1, Ordering::SeqCst) % PENDING_SLOTS;
}

/// Record the case about to be executed (a JSON document, cheap to produce).
pub fn set_pending(case: &str) {
    MY_SLOT.with(|s| {
        let slot = &PENDING[*s];
        let n = case.len().min(PENDING_CAP);
        slot.len.store(0, Ordering::SeqCst);
        unsafe {
            std::ptr::copy_nonoverlapping(case.as_ptr(), slot.buf.get() as *mut u8, n);
        }
        slot.len.store(n, Ordering::SeqCst);
    });
}

pub fn clear_pending() {
    MY_SLOT.with(|s| PENDING[*s].len.store(0, Ordering::SeqCst));
}

extern "C" fn on_fatal(sig: libc::c_int) {
    unsafe {
        let fd = libc::open(
            std::ptr::addr_of!(CRASH_PATH) as *const libc::c_char,
            libc::O_WRONLY | libc::O_CREAT | libc::O_TRUNC,
            0o644,
        );
        if fd >= 0 {
            let head = b"{\"crash_signal\": ";
            libc::write(fd, head.as_ptr() as *const _, head.len());
            let d = [b'0' + (sig / 10) as u8, b'0' + (sig % 10) as u8];
            libc::write(fd, d.as_ptr() as *const _, 2);
            let mid = b", \"pending\": [\n";
            libc::write(fd, mid.as_ptr() as *const _, mid.len());
            let mut first = true;
            for slot in PENDING.iter() {
                let n = slot.len.load(Ordering::SeqCst);
                if n > 0 {
                    if !first {
                        libc::write(fd, b",\n".as_ptr() as *const _, 2);
                    }
                    first = false;
                    libc::write(fd, slot.buf.get() as *const libc::c_void, n);
                }
            }
            let tail = b"\n]}\n";
            libc::write(fd, tail.as_ptr() as *const _, tail.len());
            libc::close(fd);
        }
        libc::write(1, std::ptr::addr_of!(CRASH_LINE) as *const _, CRASH_LINE_LEN);
        libc::_exit(1);
    }
}

/// Install handlers for SIGSEGV / SIGBUS / SIGABRT / SIGILL that report a violation.
pub fn install_crash_handler(prop: &str, verif_dir: &Path) {
    let dir = verif_dir.join("replays").join(prop).join("found");
    let _ = std::fs::create_dir_all(&dir);
    let path = dir.join(format!("crash-{}.json", std::process::id()));
    let p = path.display().to_string();
    let line = format!("VIOLATION property={} replay={}\n", prop, p);
    unsafe {
        let pb = p.as_bytes();
        let dst = &mut *std::ptr::addr_of_mut!(CRASH_PATH);
        dst[..pb.len()].copy_from_slice(pb);
        dst[pb.len()] = 0;
        let lb = line.as_bytes();
        let dst = &mut *std::ptr::addr_of_mut!(CRASH_LINE);
        dst[..lb.len()].copy_from_slice(lb);
        CRASH_LINE_LEN = lb.len();
        // alternate stack so that stack overflow is reported too
        let stack_size = 1 << 16;
        let stack = libc::mmap(
            std::ptr::null_mut(),
            stack_size,
            libc::PROT_READ | libc::PROT_WRITE,
            libc::MAP_PRIVATE | libc::MAP_ANONYMOUS,
            -1,
            0,
        );
        let ss = libc::stack_t {
            ss_sp: stack,
            ss_flags: 0,
            ss_size: stack_size,
        };
        libc::sigaltstack(&ss, std::ptr::null_mut());
        for sig in [libc::SIGSEGV, libc::SIGBUS, libc::SIGILL, libc::SIGABRT] {
            let mut sa: libc::sigaction = std::mem::zeroed();
            sa.sa_sigaction = on_fatal as usize;
            sa.sa_flags = libc::SA_ONSTACK;
            libc::sigemptyset(&mut sa.sa_mask);
            libc::sigaction(sig, &sa, std::ptr::null_mut());
        }
    }
}
