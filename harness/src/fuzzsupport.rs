//! Shared entry points for the libFuzzer targets in /verif/fuzz: bytes are decoded into
//! structured arguments (a shape / schema tree / capacity / chunking / payload) through the
//! `Src` data provider, then the same oracle functions as the proptest checks are run.
//! DESIGN.md §3.12.

use crate::corpus::Src;
use crate::dynshape::{Name, Shape, VKind, Variant, NAME_POOL};
use crate::props;
use crate::runner::{Fail, Local};
use crate::schematree::{TData, Tree, LEAVES};
use serde_json::{json, Value as Json};

pub const TARGETS: &[(&str, &[&str])] = &[
    ("decode_diff", &["C03", "C04"]),
    ("cobs_decode", &["C07"]),
    ("accumulator", &["C08", "C09"]),
    ("crc_decode", &["C10"]),
    ("dyn_decode", &["C18"]),
    ("dyn_encode", &["C18"]),
    ("schema_tools", &["C15", "C16", "C19"]),
];

fn name(s: &mut Src) -> Name {
    Name(NAME_POOL[s.below(NAME_POOL.len())])
}

const SCALARS: &[Shape] = &[
    Shape::Bool, Shape::I8, Shape::I16, Shape::I32, Shape::I64, Shape::I128, Shape::U8, Shape::U16, Shape::U32, Shape::U64,
    Shape::U128, Shape::F32, Shape::F64, Shape::Char, Shape::Str, Shape::String, Shape::Bytes, Shape::ByteBuf, Shape::Unit,
    Shape::Usize, Shape::Isize,
];

pub fn gen_shape(s: &mut Src, depth: u32) -> Shape {
    if depth >= 4 || s.byte() % 5 < 2 {
        return SCALARS[s.below(SCALARS.len())].clone();
    }
    let list = |s: &mut Src, d: u32| (0..s.below(4)).map(|_| gen_shape(s, d + 1)).collect::<Vec<_>>();
    let fields = |s: &mut Src, d: u32| (0..s.below(4)).map(|_| (name(s), gen_shape(s, d + 1))).collect::<Vec<_>>();
    match s.below(9) {
        0 => Shape::Option(Box::new(gen_shape(s, depth + 1))),
        1 => Shape::Newtype(name(s), Box::new(gen_shape(s, depth + 1))),
        2 => Shape::Seq(Box::new(gen_shape(s, depth + 1))),
        3 => Shape::Tuple(list(s, depth)),
        4 => Shape::TupleStruct(name(s), list(s, depth)),
        5 => Shape::Map(Box::new(gen_shape(s, depth + 1)), Box::new(gen_shape(s, depth + 1))),
        6 => Shape::Struct(name(s), fields(s, depth)),
        7 => Shape::UnitStruct(name(s)),
        _ => {
            let n = 1 + s.below(4);
            let idx_pool = [0u32, 1, 2, 3, 127, 128, 300, 65536, u32::MAX];
            let mut used: Vec<u32> = vec![];
            let variants = (0..n)
                .map(|i| {
                    let mut index = if s.byte() % 2 == 0 { i as u32 } else { idx_pool[s.below(idx_pool.len())] };
                    while used.contains(&index) {
                        index = index.wrapping_add(1);
                    }
                    used.push(index);
                    let kind = match s.below(4) {
                        0 => VKind::Unit,
                        1 => VKind::Newtype(Box::new(gen_shape(s, depth + 1))),
                        2 => VKind::Tuple(list(s, depth)),
                        _ => VKind::Struct(fields(s, depth)),
                    };
                    Variant { index, name: name(s), kind }
                })
                .collect();
            Shape::Enum(name(s), variants)
        }
    }
}

pub fn gen_tree(s: &mut Src, depth: u32) -> Tree {
    let nm = |s: &mut Src| ["", "a", "q", "Foo", "名前", "qqq", "Point", "k", "e"][s.below(9)].to_string();
    let data = |s: &mut Src, depth: u32| match s.below(4) {
        0 => TData::Unit,
        1 => TData::Newtype(Box::new(gen_tree(s, depth + 1))),
        2 => TData::Tuple((0..s.below(4)).map(|_| gen_tree(s, depth + 1)).collect()),
        _ => TData::Struct((0..s.below(4)).map(|_| (nm(s), gen_tree(s, depth + 1))).collect()),
    };
    if depth >= 4 || s.byte() % 3 == 0 {
        return LEAVES[s.below(LEAVES.len())].clone();
    }
    match s.below(7) {
        0 => Tree::Option(Box::new(gen_tree(s, depth + 1))),
        1 => Tree::Seq(Box::new(gen_tree(s, depth + 1))),
        2 => Tree::Tuple((0..s.below(4)).map(|_| gen_tree(s, depth + 1)).collect()),
        3 => Tree::Map(Box::new(gen_tree(s, depth + 1)), Box::new(gen_tree(s, depth + 1))),
        4 => Tree::Struct(nm(s), data(s, depth)),
        _ => Tree::Enum(nm(s), (0..s.below(4)).map(|_| (nm(s), data(s, depth))).collect()),
    }
}

fn gen_json(s: &mut Src, depth: u32) -> Json {
    if depth >= 3 || s.byte() % 3 == 0 {
        return match s.below(9) {
            0 => Json::Null,
            1 => json!(s.byte() % 2 == 0),
            2 => json!(s.u64()),
            3 => json!(s.u64() as i64),
            4 => json!(s.byte()),
            5 => json!(f64::from_bits(s.u64())),
            6 => json!(1e300),
            7 => json!(["", "a", "ab", "é", "Foo", "q"][s.below(6)]),
            _ => json!(-(s.byte() as i64)),
        };
    }
    if s.byte() % 2 == 0 {
        Json::Array((0..s.below(4)).map(|_| gen_json(s, depth + 1)).collect())
    } else {
        Json::Object((0..s.below(4)).map(|_| (["", "a", "q", "Foo", "名前", "qqq", "k"][s.below(7)].to_string(), gen_json(s, depth + 1))).collect())
    }
}

/// Split: the first `head` bytes drive the structure, the rest is the payload.
fn split(data: &[u8], head: usize) -> (&[u8], &[u8]) {
    let h = head.min(data.len());
    (&data[..h], &data[h..])
}

/// Run one fuzz input through the oracles of `target`. Err = a violation (or known finding,
/// see `signature`).
pub fn run_target(target: &str, data: &[u8], l: &mut Local) -> Result<(), Fail> {
    match target {
        "decode_diff" => {
            let (h, payload) = split(data, 24);
            let shape = gen_shape(&mut Src::new(h, false), 0);
            props::c03::check_decode(&shape, payload, false, l)?;
            props::c04::check_total(&shape, payload, false, l)
        }
        "cobs_decode" => {
            let (h, payload) = split(data, 24);
            let mut s = Src::new(h, false);
            let shapes = props::c07::target_shapes();
            let shape = if s.byte() % 2 == 0 { shapes[s.below(shapes.len())].clone() } else { gen_shape(&mut s, 1) };
            props::c07::check(&shape, payload, true, l)?;
            props::c07::check(&shape, payload, false, l)
        }
        "accumulator" => {
            let (h, stream) = split(data, 12);
            let mut s = Src::new(h, false);
            let caps = props::accum::CAPS;
            let n = caps[s.below(caps.len())];
            let shapes = props::accum::target_shapes();
            let shape = shapes[s.below(shapes.len())].clone();
            let use_ref = s.byte() % 2 == 0;
            let mask = s.u64();
            let stream = &stream[..stream.len().min(64)];
            let cuts: Vec<usize> = (1..stream.len()).filter(|i| (mask >> (i % 64)) & 1 == 1).collect();
            props::c09::check_history(n, &shape, stream, &cuts, use_ref, l)?;
            // C08 applies when every zero-terminated segment and the tail fit the capacity
            let fits = stream.split(|b| *b == 0).enumerate().all(|(i, seg)| {
                let last = i == stream.iter().filter(|b| **b == 0).count();
                if last { seg.len() <= n } else { seg.len() + 1 <= n }
            });
            if fits {
                props::c08::check_history(n, &shape, stream, &cuts, use_ref, l)?;
            }
            Ok(())
        }
        "crc_decode" => {
            let (h, payload) = split(data, 20);
            let mut s = Src::new(h, false);
            let ai = s.below(props::c10::apis().len());
            let shape = gen_shape(&mut s, 1);
            props::c10::check_converse(ai, &shape, payload, l).map(|_| ())
        }
        "dyn_decode" => {
            let (h, payload) = split(data, 32);
            let tree = gen_tree(&mut Src::new(h, false), 0);
            let mut ex = 0;
            let tree = props::c18::sanitize(&tree, &mut ex);
            l.excluded_known += ex;
            props::c18::check_bytes(&tree, payload, l)
        }
        "dyn_encode" => {
            let (h, rest) = split(data, 32);
            let tree = gen_tree(&mut Src::new(h, false), 0);
            let mut ex = 0;
            let tree = props::c18::sanitize_opts(&tree, &mut ex, false);
            l.excluded_known += ex;
            let j = gen_json(&mut Src::new(rest, false), 0);
            props::c18::check_json(&tree, &j, false, l)
        }
        "schema_tools" => {
            let (h, rest) = split(data, 8);
            let tree = gen_tree(&mut Src::new(rest, false), 0);
            let path = String::from_utf8_lossy(h).to_string();
            props::c19::check(&tree, l)?;
            props::c15::check(&tree, l)?;
            props::c16::check(&path, &tree, false, l)
        }
        _ => panic!("unknown fuzz target {}", target),
    }
}

/// libFuzzer entry: panic (=> crash artefact) on a violation that is not a listed known finding.
pub fn fuzz_entry(target: &str, data: &[u8]) {
    thread_local! {
        static KNOWN: Vec<String> = {
            let dir = std::env::var("VERIF_DIR").unwrap_or_else(|_| "/verif".into());
            let s = std::fs::read_to_string(format!("{}/known_findings.json", dir)).unwrap_or_default();
            let j: Json = serde_json::from_str(&s).unwrap_or(Json::Null);
            j["findings"].as_array().map(|a| a.iter().filter(|f| f["status"] == "open").filter_map(|f| f["signature"].as_str().map(|s| s.to_string())).collect()).unwrap_or_default()
        };
    }
    let mut l = Local::new();
    l.counting = false;
    if let Err(f) = run_target(target, data, &mut l) {
        let known = f.signature.as_ref().map_or(false, |s| KNOWN.with(|k| k.contains(s)));
        if !known {
            panic!("VIOLATION in fuzz target {}: {}\ncase: {}", target, f.msg, f.case);
        }
    }
}

/// Deterministic seed inputs for a target: structure bytes + a *valid* payload for that structure
/// (valid encodings / frames), so campaigns start behind input validation.
pub fn seed_inputs(target: &str, count: usize) -> Vec<Vec<u8>> {
    use crate::gen::{arb_value, ValCfg};
    use crate::refcodec::ref_encode;
    use crate::runner::sample_once;
    let mut out = vec![];
    let mut x: u64 = 0x9E37_79B9_7F4A_7C15 ^ (target.len() as u64) << 32;
    let mut next = move || {
        x ^= x << 13;
        x ^= x >> 7;
        x ^= x << 17;
        x
    };
    for k in 0..count {
        let head_len = match target {
            "decode_diff" | "cobs_decode" => 24,
            "accumulator" => 12,
            "crc_decode" => 20,
            "dyn_decode" | "dyn_encode" => 32,
            _ => 8,
        };
        let head: Vec<u8> = (0..head_len).map(|_| (next() >> 24) as u8).collect();
        let vcfg = ValCfg { max_len: 12, max_seq: 3 };
        let payload: Vec<u8> = match target {
            "decode_diff" => {
                let shape = gen_shape(&mut Src::new(&head, false), 0);
                let v = sample_once(&arb_value(&shape, vcfg), k as u64, "seed");
                ref_encode(&shape, &v).map(|e| e.bytes).unwrap_or_default()
            }
            "cobs_decode" => {
                let mut s = Src::new(&head, false);
                let shapes = props::c07::target_shapes();
                let shape = if s.byte() % 2 == 0 { shapes[s.below(shapes.len())].clone() } else { gen_shape(&mut s, 1) };
                let v = sample_once(&arb_value(&shape, vcfg), k as u64, "seed");
                crate::refcobs::frame(&ref_encode(&shape, &v).map(|e| e.bytes).unwrap_or_default())
            }
            "accumulator" => {
                let mut s = Src::new(&head, false);
                let _ = s.below(props::accum::CAPS.len());
                let shapes = props::accum::target_shapes();
                let shape = shapes[s.below(shapes.len())].clone();
                let mut stream = vec![];
                for j in 0..3 {
                    let v = sample_once(&arb_value(&shape, ValCfg { max_len: 4, max_seq: 2 }), (k * 3 + j) as u64, "seed");
                    stream.extend(crate::refcobs::frame(&ref_encode(&shape, &v).map(|e| e.bytes).unwrap_or_default()));
                }
                stream
            }
            "crc_decode" => {
                let mut s = Src::new(&head, false);
                let ai = s.below(props::c10::apis().len());
                let shape = gen_shape(&mut s, 1);
                let v = sample_once(&arb_value(&shape, vcfg), k as u64, "seed");
                props::c10::frame_of(&props::c10::apis()[ai], &ref_encode(&shape, &v).map(|e| e.bytes).unwrap_or_default())
            }
            "dyn_decode" => {
                let tree = gen_tree(&mut Src::new(&head, false), 0);
                match crate::dynmap::tree_to_shape(&tree) {
                    Some(shape) => {
                        let v = sample_once(&arb_value(&shape, vcfg), k as u64, "seed");
                        ref_encode(&shape, &v).map(|e| e.bytes).unwrap_or_default()
                    }
                    None => vec![0, 1, 2],
                }
            }
            _ => (0..24).map(|_| (next() >> 24) as u8).collect(),
        };
        let mut input = head;
        input.extend(payload);
        out.push(input);
    }
    out
}
