//! call tree -> harness Value (split from record.rs so that record.rs depends on serde and postcard-schema only)

// ---------------------------------------------------------------------------------------
// call tree -> harness Value, guided by a shape (for the reference encoder)
// ---------------------------------------------------------------------------------------

use crate::dynshape::{Shape, VKind, Value};
use crate::record::{kind, Call};

pub fn call_to_value(c: &Call, s: &Shape) -> Result<Value, String> {
    let list = |items: &[Call], shapes: &mut dyn Iterator<Item = &Shape>| -> Result<Value, String> {
        let shapes: Vec<&Shape> = shapes.collect();
        if shapes.len() != items.len() {
            return Err(format!("arity {} vs {}", items.len(), shapes.len()));
        }
        Ok(Value::List(items.iter().zip(shapes).map(|(c, s)| call_to_value(c, s)).collect::<Result<Vec<_>, _>>()?))
    };
    Ok(match (c, s) {
        (Call::Bool(b), Shape::Bool) => Value::Bool(*b),
        (Call::I8(v), Shape::I8) => Value::I(*v as i128),
        (Call::I16(v), Shape::I16) => Value::I(*v as i128),
        (Call::I32(v), Shape::I32) => Value::I(*v as i128),
        (Call::I64(v), Shape::I64 | Shape::Isize) => Value::I(*v as i128),
        (Call::I128(v), Shape::I128) => Value::I(*v),
        (Call::U8(v), Shape::U8) => Value::U(*v as u128),
        (Call::U16(v), Shape::U16) => Value::U(*v as u128),
        (Call::U32(v), Shape::U32) => Value::U(*v as u128),
        (Call::U64(v), Shape::U64 | Shape::Usize) => Value::U(*v as u128),
        (Call::U128(v), Shape::U128) => Value::U(*v),
        (Call::F32(b), Shape::F32) => Value::F32(*b),
        (Call::F64(b), Shape::F64) => Value::F64(*b),
        (Call::Char(ch), Shape::Char) => Value::Char(*ch),
        (Call::Str(x), Shape::Str | Shape::String) => Value::Str(x.clone()),
        (Call::Bytes(x), Shape::Bytes | Shape::ByteBuf) => Value::Bytes(x.clone()),
        (Call::None, Shape::Option(_)) => Value::None,
        (Call::Some(i), Shape::Option(si)) => Value::Some(Box::new(call_to_value(i, si)?)),
        (Call::Unit, Shape::Unit) | (Call::UnitStruct(_), Shape::UnitStruct(_)) => Value::Unit,
        (Call::NewtypeStruct(_, i), Shape::Newtype(_, si)) => Value::Newtype(Box::new(call_to_value(i, si)?)),
        (Call::Seq(_, items), Shape::Seq(e)) => Value::List(items.iter().map(|c| call_to_value(c, e)).collect::<Result<Vec<_>, _>>()?),
        (Call::Tuple(_, items), Shape::Tuple(ss)) => list(items, &mut ss.iter())?,
        (Call::TupleStruct(_, _, items), Shape::TupleStruct(_, ss)) => list(items, &mut ss.iter())?,
        (Call::Struct(_, _, fields), Shape::Struct(_, fs)) => {
            let items: Vec<Call> = fields.iter().map(|(_, c)| c.clone()).collect();
            list(&items, &mut fs.iter().map(|(_, s)| s))?
        }
        (Call::Map(_, pairs), Shape::Map(k, v)) => Value::Map(
            pairs.iter().map(|(a, b)| Ok((call_to_value(a, k)?, call_to_value(b, v)?))).collect::<Result<Vec<_>, String>>()?,
        ),
        (Call::UnitVariant(_, idx, _), Shape::Enum(_, vs))
        | (Call::NewtypeVariant(_, idx, _, _), Shape::Enum(_, vs))
        | (Call::TupleVariant(_, idx, _, _, _), Shape::Enum(_, vs))
        | (Call::StructVariant(_, idx, _, _, _), Shape::Enum(_, vs)) => {
            let pos = vs.iter().position(|v| v.index == *idx).ok_or_else(|| format!("variant index {} not in the schema", idx))?;
            let payload = match (c, &vs[pos].kind) {
                (Call::UnitVariant(..), VKind::Unit) => Value::Unit,
                (Call::NewtypeVariant(_, _, _, i), VKind::Newtype(si)) => call_to_value(i, si)?,
                (Call::TupleVariant(_, _, _, _, items), VKind::Tuple(ss)) => list(items, &mut ss.iter())?,
                (Call::StructVariant(_, _, _, _, fields), VKind::Struct(fs)) => {
                    let items: Vec<Call> = fields.iter().map(|(_, c)| c.clone()).collect();
                    list(&items, &mut fs.iter().map(|(_, s)| s))?
                }
                _ => return Err("variant payload form differs from the schema".into()),
            };
            Value::Variant(pos, Box::new(payload))
        }
        _ => return Err(format!("{} does not fit shape {:?}", kind(c), s.kind_name())),
    })
}
