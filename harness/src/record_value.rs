//! call tree -> harness Value (split from record.rs so that record.rs depends on serde and postcard-schema only)

// ---------------------------------------------------------------------------------------
// call tree -> harness Value, guided by a shape (for the reference encoder)
// ---------------------------------------------------------------------------------------

use crate::dynshape::{Shape, VKind, Value};
use crate::record::{kind, Call};

pub fn call_to_value(c: &Call, s: &Shape) -> Result<Value, String> {
    let list = |items: &[Call], shapes: &mut dyn Iterator<Item = &Shape>| -> Result<Value, String> {
        let shapes: Vec<&Shape> = shapes.collect();
        if shapes.len() != items.len() {
            return Err(format!("arity {} vs {}", items.len(), shapes.len()));
        }
        Ok(Value::List(items.iter().zip(shapes).map(|(c, s)| call_to_value(c, s)).collect::<Result<Vec<_>, _>>()?))
    };
    Ok(match (c, s) {
        (Call::Bool(b), Shape::Bool) => Value::Bool(*b),
        (Call::I8(v), Shape::I8) => Value::I(*v as i128),
        (Call::I16(v), Shape::I16) => Value::I(*v as i128),
        (Call::I32(v), Shape::I32) => Value::I(*v as i128),
        (Call::I64(v), Shape::I64 | Shape::Isize) => Value::I(*v as i128),
        (Call::I128(v), Shape::I128) => Value::I(*v),
        (Call::U8(v), Shape::U8) => Value::U(*v as u128),
        (Call::U16(v), Shape::U16) => Value::U(*v as u128),
        (Call::U32(v), Shape::U32) => Value::U(*v as u128),
        (Call::U64(v), Shape::U64 | Shape::Usize) => Value::U(*v as u128),
        (Call::U128(v), Shape::U128) => Value::U(*v),
        (Call::F32(b), Shape::F32) => Value::F32(*b),
        (Call::F64(b), Shape::F64) => Value::F64(*b),
        (Call::Char(ch), Shape::Char) => Value::Char(*ch),
        (Call::Str(x), Shape::Str | Shape::String) => Value::Str(x.clone()),
        (Call::Bytes(x), Shape::Bytes | Shape::ByteBuf) => Value::Bytes(x.clone()),
        (Call::None, Shape::Option(_)) => Value::None,
        (Call::Some(i), Shape::Option(si)) => Value::Some(Box::new(call_to_value(i, si)?)),
        (Call::Unit, Shape::Unit) | (Call::UnitStruct(_), Shape::UnitStruct(_)) => Value::Unit,
        (Call::NewtypeStruct(_, i), Shape::Newtype(_, si)) => Value::Newtype(Box::new(call_to_value(i, si)?)),
        (Call::Seq(_, items), Shape::Seq(e)) => Value::List(items.iter().map(|c| call_to_value(c, e)).collect::<Result<Vec<_>, _>>()?),
        (Call::Tuple(_, items), Shape::Tuple(ss)) => list(items, &mut ss.iter())?,
        (Call::TupleStruct(_, _, items), Shape::TupleStruct(_, ss)) => list(items, &mut ss.iter())?,
        (Call::Struct(_, _, fields), Shape::Struct(_, fs)) => {
            let items: Vec<Call> = fields.iter().map(|(_, c)| c.clone()).collect();
            list(&items, &mut fs.iter().map(|(_, s)| s))?
        }
        (Call::Map(_, pairs), Shape::Map(k, v)) => Value::Map(
            pairs.iter().map(|(a, b)| Ok((call_to_value(a, k)?, call_to_value(b, v)?))).collect::<Result<Vec<_>, String>>()?,
        ),
        (Call::UnitVariant(_, idx, _), Shape::Enum(_, vs))
        | (Call::NewtypeVariant(_, idx, _, _), Shape::Enum(_, vs))
        | (Call::TupleVariant(_, idx, _, _, _), Shape::Enum(_, vs))
        | (Call::StructVariant(_, idx, _, _, _), Shape::Enum(_, vs)) => {
            let pos = vs.iter().position(|v| v.index == *idx).ok_or_else(|| format!("variant index {} not in the schema", idx))?;
            let payload = match (c, &vs[pos].kind) {
                (Call::UnitVariant(..), VKind::Unit) => Value::Unit,
                (Call::NewtypeVariant(_, _, _, i), VKind::Newtype(si)) => call_to_value(i, si)?,
                (Call::TupleVariant(_, _, _, _, items), VKind::Tuple(ss)) => list(items, &mut ss.iter())?,
                (Call::StructVariant(_, _, _, _, fields), VKind::Struct(fs)) => {
                    let items: Vec<Call> = fields.iter().map(|(_, c)| c.clone()).collect();
                    list(&items, &mut fs.iter().map(|(_, s)| s))?
                }
                _ => return Err("variant payload form differs from the schema".into()),
            };
            Value::Variant(pos, Box::new(payload))
        }
        _ => return Err(format!("{} does not fit shape {:?}", kind(c), s.kind_name())),
    })
}

// ---------------------------------------------------------------------------------------
// call tree -> bytes, straight from the wire-format specification (no schema, no shape)
// ---------------------------------------------------------------------------------------

fn wire_varint(out: &mut Vec<u8>, mut v: u128) {
    loop {
        let g = (v & 0x7F) as u8;
        v >>= 7;
        if v == 0 {
            out.push(g);
            return;
        }
        out.push(g | 0x80);
    }
}

fn wire_zigzag(out: &mut Vec<u8>, v: i128, bits: u32) {
    // (n << 1) ^ (n >> (bits-1)) evaluated in `bits`-wide two's complement
    let mask: u128 = if bits == 128 { u128::MAX } else { (1u128 << bits) - 1 };
    let u = (v as u128) & mask;
    let z = if v < 0 { !(u << 1) & mask } else { (u << 1) & mask };
    wire_varint(out, z);
}

/// The bytes the published wire format prescribes for a sequence of serde data-model items.
/// `Err` for sequences / maps of unknown length (the format refuses them).
pub fn wire_of_call(c: &Call, out: &mut Vec<u8>) -> Result<(), String> {
    let list = |items: &[Call], out: &mut Vec<u8>| -> Result<(), String> {
        for i in items {
            wire_of_call(i, out)?;
        }
        Ok(())
    };
    match c {
        Call::Bool(b) => out.push(*b as u8),
        Call::I8(v) => out.push(*v as u8),
        Call::U8(v) => out.push(*v),
        Call::I16(v) => wire_zigzag(out, *v as i128, 16),
        Call::I32(v) => wire_zigzag(out, *v as i128, 32),
        Call::I64(v) => wire_zigzag(out, *v as i128, 64),
        Call::I128(v) => wire_zigzag(out, *v, 128),
        Call::U16(v) => wire_varint(out, *v as u128),
        Call::U32(v) => wire_varint(out, *v as u128),
        Call::U64(v) => wire_varint(out, *v as u128),
        Call::U128(v) => wire_varint(out, *v),
        Call::F32(b) => out.extend_from_slice(&[(*b) as u8, (*b >> 8) as u8, (*b >> 16) as u8, (*b >> 24) as u8]),
        Call::F64(b) => {
            for k in 0..8 {
                out.push((*b >> (8 * k)) as u8);
            }
        }
        Call::Char(ch) => {
            let mut buf = [0u8; 4];
            let s = ch.encode_utf8(&mut buf);
            wire_varint(out, s.len() as u128);
            out.extend_from_slice(s.as_bytes());
        }
        Call::Str(s) => {
            wire_varint(out, s.len() as u128);
            out.extend_from_slice(s.as_bytes());
        }
        Call::Bytes(b) => {
            wire_varint(out, b.len() as u128);
            out.extend_from_slice(b);
        }
        Call::None => out.push(0),
        Call::Some(i) => {
            out.push(1);
            wire_of_call(i, out)?;
        }
        Call::Unit | Call::UnitStruct(_) => {}
        Call::NewtypeStruct(_, i) => wire_of_call(i, out)?,
        Call::Seq(len, items) => {
            let n = len.ok_or("sequence of unknown length")?;
            if n != items.len() {
                return Err(format!("sequence announced {} elements and wrote {}", n, items.len()));
            }
            wire_varint(out, n as u128);
            list(items, out)?;
        }
        Call::Tuple(_, items) | Call::TupleStruct(_, _, items) => list(items, out)?,
        Call::Map(len, pairs) => {
            let n = len.ok_or("map of unknown length")?;
            if n != pairs.len() {
                return Err(format!("map announced {} entries and wrote {}", n, pairs.len()));
            }
            wire_varint(out, n as u128);
            for (k, v) in pairs {
                wire_of_call(k, out)?;
                wire_of_call(v, out)?;
            }
        }
        Call::Struct(_, _, fields) => {
            for (_, f) in fields {
                wire_of_call(f, out)?;
            }
        }
        Call::UnitVariant(_, idx, _) => wire_varint(out, *idx as u128),
        Call::NewtypeVariant(_, idx, _, i) => {
            wire_varint(out, *idx as u128);
            wire_of_call(i, out)?;
        }
        Call::TupleVariant(_, idx, _, _, items) => {
            wire_varint(out, *idx as u128);
            list(items, out)?;
        }
        Call::StructVariant(_, idx, _, _, fields) => {
            wire_varint(out, *idx as u128);
            for (_, f) in fields {
                wire_of_call(f, out)?;
            }
        }
    }
    Ok(())
}
