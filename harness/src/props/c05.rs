//! C05 — bounded-buffer serialisation: exact capacity threshold, never out of bounds.

use super::common::*;
use crate::dynshape::{render, Shape, Typed, Value};
use crate::gen::{self, ShapeCfg, ValCfg};
use crate::guard::{Flush, GuardArena};
use crate::refcodec::ref_encode;
use crate::runner::{clear_pending, fail, hex, no_panic, set_pending, CaseResult, Ctx, Local};
use crate::{refcobs, refcrc};
use postcard::ser_flavors::{self, Flavor};
use proptest::prelude::*;
use serde_json::{json, Value as Json};
use std::cell::RefCell;

#[derive(Clone, Copy, Debug, PartialEq, Eq, Hash)]
pub enum Framing {
    Plain,
    Cobs,
    Crc8,
    Crc16,
    Crc32,
    Crc64,
    Crc128,
}

pub const FRAMINGS: [Framing; 7] = [
    Framing::Plain,
    Framing::Cobs,
    Framing::Crc8,
    Framing::Crc16,
    Framing::Crc32,
    Framing::Crc64,
    Framing::Crc128,
];

static CRC8: crc::Crc<u8> = crc::Crc::<u8>::new(&crc::CRC_8_SMBUS);
static CRC16: crc::Crc<u16> = crc::Crc::<u16>::new(&crc::CRC_16_IBM_SDLC);
static CRC32: crc::Crc<u32> = crc::Crc::<u32>::new(&crc::CRC_32_ISCSI);
static CRC64: crc::Crc<u64> = crc::Crc::<u64>::new(&crc::CRC_64_XZ);
static CRC128: crc::Crc<u128> = crc::Crc::<u128>::new(&crc::CRC_82_DARC);

fn le(v: u128, n: usize) -> Vec<u8> {
    (0..n).map(|i| ((v >> (8 * i)) & 0xFF) as u8).collect()
}

/// The complete output the reference transforms prescribe.
pub fn reference_output(plain: &[u8], f: Framing) -> Vec<u8> {
    let with_crc = |p: &refcrc::Params, n: usize| {
        let mut o = plain.to_vec();
        o.extend(le(refcrc::crc(p, plain), n));
        o
    };
    match f {
        Framing::Plain => plain.to_vec(),
        Framing::Cobs => refcobs::frame(plain),
        Framing::Crc8 => with_crc(&refcrc::algs8()[0].0, 1),
        Framing::Crc16 => with_crc(&refcrc::algs16()[0].0, 2),
        Framing::Crc32 => with_crc(&refcrc::algs32()[0].0, 4),
        Framing::Crc64 => with_crc(&refcrc::algs64()[1].0, 8),
        Framing::Crc128 => with_crc(&refcrc::algs128()[0].0, 16),
    }
}

fn to_slice_framed<'a>(t: &Typed, buf: &'a mut [u8], f: Framing) -> postcard::Result<&'a mut [u8]> {
    use postcard::ser_flavors::crc as c;
    match f {
        Framing::Plain => postcard::to_slice(t, buf),
        Framing::Cobs => postcard::to_slice_cobs(t, buf),
        Framing::Crc8 => c::to_slice_u8(t, buf, CRC8.digest()),
        Framing::Crc16 => c::to_slice_u16(t, buf, CRC16.digest()),
        Framing::Crc32 => postcard::to_slice_crc32(t, buf, CRC32.digest()),
        Framing::Crc64 => c::to_slice_u64(t, buf, CRC64.digest()),
        Framing::Crc128 => c::to_slice_u128(t, buf, CRC128.digest()),
    }
}

fn to_hvec_framed<const C: usize>(t: &Typed, f: Framing) -> postcard::Result<Vec<u8>> {
    use postcard::ser_flavors::crc as c;
    Ok(match f {
        Framing::Plain => postcard::to_vec::<_, C>(t)?.to_vec(),
        Framing::Cobs => postcard::to_vec_cobs::<_, C>(t)?.to_vec(),
        Framing::Crc8 => c::to_vec_u8::<_, C>(t, CRC8.digest())?.to_vec(),
        Framing::Crc16 => c::to_vec_u16::<_, C>(t, CRC16.digest())?.to_vec(),
        Framing::Crc32 => postcard::to_vec_crc32::<_, C>(t, CRC32.digest())?.to_vec(),
        Framing::Crc64 => c::to_vec_u64::<_, C>(t, CRC64.digest())?.to_vec(),
        Framing::Crc128 => c::to_vec_u128::<_, C>(t, CRC128.digest())?.to_vec(),
    })
}

fn to_alloc_framed(t: &Typed, f: Framing) -> postcard::Result<Vec<u8>> {
    use postcard::ser_flavors::crc as c;
    match f {
        Framing::Plain => postcard::to_allocvec(t),
        Framing::Cobs => postcard::to_allocvec_cobs(t),
        Framing::Crc8 => c::to_allocvec_u8(t, CRC8.digest()),
        Framing::Crc16 => c::to_allocvec_u16(t, CRC16.digest()),
        Framing::Crc32 => postcard::to_allocvec_crc32(t, CRC32.digest()),
        Framing::Crc64 => c::to_allocvec_u64(t, CRC64.digest()),
        Framing::Crc128 => c::to_allocvec_u128(t, CRC128.digest()),
    }
}

pub const HCAPS: &[usize] = &[
    0, 1, 2, 3, 4, 5, 6, 7, 8, 9, 10, 12, 16, 17, 31, 32, 33, 63, 64, 65, 127, 128, 129, 254, 255, 256, 257, 258, 300, 1024,
];

macro_rules! hvec_dispatch {
    ($cap:expr, $t:expr, $f:expr, [$($c:literal),*]) => {
        match $cap {
            $( $c => to_hvec_framed::<$c>($t, $f), )*
            _ => panic!("harness bug: no heapless capacity {}", $cap),
        }
    };
}

fn to_hvec_dyn(cap: usize, t: &Typed, f: Framing) -> postcard::Result<Vec<u8>> {
    hvec_dispatch!(
        cap, t, f,
        [0, 1, 2, 3, 4, 5, 6, 7, 8, 9, 10, 12, 16, 17, 31, 32, 33, 63, 64, 65, 127, 128, 129, 254, 255, 256, 257, 258, 300, 1024]
    )
}

thread_local! {
    static ARENA: RefCell<GuardArena> = RefCell::new(GuardArena::new(1 << 16));
}

/// does the value contain anything whose failure mode is not "buffer full"?
fn ordinary(shape: &Shape) -> bool {
    !shape.encoder_only()
}

fn slice_case(shape: &Shape, value: &Value, f: Framing, o: &[u8], c: usize, flush: Flush, canary: u8, l: &mut Local) -> CaseResult {
    let cj = || {
        let mut j = case_json(shape, value);
        j["framing"] = json!(format!("{:?}", f));
        j["capacity"] = json!(c);
        j["storage"] = json!("slice");
        j
    };
    let t = Typed(shape, value);
    let m = o.len();
    l.eval();
    ARENA.with(|a| {
        let mut a = a.borrow_mut();
        let buf = a.slice(c, flush);
        buf.fill(canary);
        let base = buf.as_ptr();
        let r = no_panic(|| to_slice_framed(&t, buf, f).map(|s| (s.as_ptr(), s.len())))
            .map_err(|p| fail("capacity", format!("to_slice ({:?}, capacity {}) panicked: {}", f, c, p), cj()))?;
        let buf = a.slice(c, flush);
        match r {
            Ok((ptr, len)) => {
                if c < m {
                    return Err(fail("capacity", format!("{:?}: capacity {} < output length {} but serialisation succeeded", f, c, m), cj()));
                }
                if ptr != base || len != m || &buf[..m] != o {
                    return Err(fail(
                        "capacity",
                        format!("{:?}: returned {} (len {}), expected {} at the front of the buffer", f, hex(&buf[..len.min(c)]), len, hex(o)),
                        cj(),
                    ));
                }
                if buf[m..].iter().any(|b| *b != canary) {
                    return Err(fail("capacity", format!("{:?}: bytes after the output were modified", f), cj()));
                }
            }
            Err(e) => {
                if c >= m {
                    return Err(fail("capacity", format!("{:?}: capacity {} >= output length {} but got {:?}", f, c, m, e), cj()));
                }
                if ordinary(shape) && e != postcard::Error::SerializeBufferFull {
                    return Err(fail("capacity", format!("{:?}: too-small buffer reported {:?}, expected SerializeBufferFull", f, e), cj()));
                }
            }
        }
        Ok(())
    })?;
    if (c > 0 && c < m) || (c + 1 >= m && c <= m + 1) {
        l.nontrivial(&(o, f, c, flush == Flush::End, 0u8));
    }
    Ok(())
}

/// One value, every framing, every capacity, both placements; growable storages; Size.
pub fn check_sweep(shape: &Shape, value: &Value, l: &mut Local) -> CaseResult {
    let Ok(e) = ref_encode(shape, value) else { return Ok(()) };
    let plain = &e.bytes;
    set_pending(&case_json(shape, value).to_string());
    let t = Typed(shape, value);
    for (fi, f) in FRAMINGS.iter().enumerate() {
        let o = reference_output(plain, *f);
        let m = o.len();
        // every capacity for short outputs; a window around the threshold plus a spread otherwise
        let caps: Vec<usize> = if m <= 96 {
            // a roomier tail as well: the bytes behind the output must stay untouched however much room is left
            let mut v: Vec<usize> = (0..=m + 2).collect();
            v.extend([m + 5, m + 9, m + 10, m + 11, m + 16, m + 40]);
            v
        } else {
            let mut v: Vec<usize> = (0..8).collect();
            v.extend((1..8).map(|k| k * m / 8));
            v.extend(m - 4..=m + 2);
            v.extend([m + 9, m + 10, m + 24]);
            v
        };
        for (k, c) in caps.iter().enumerate() {
            let flush = if (k + fi) % 2 == 0 { Flush::End } else { Flush::Start };
            let canary = if k % 2 == 0 { 0xA5 } else { 0x00 };
            slice_case(shape, value, *f, &o, *c, flush, canary, l)?;
            // both placements at the threshold
            if *c + 1 >= m && *c <= m + 1 {
                let other = if flush == Flush::End { Flush::Start } else { Flush::End };
                slice_case(shape, value, *f, &o, *c, other, 0xFF, l)?;
            }
        }
        // growable storage always succeeds with O
        l.eval();
        let r = no_panic(|| to_alloc_framed(&t, *f)).map_err(|p| fail("capacity", format!("alloc {:?} panicked: {}", f, p), case_json(shape, value)))?;
        if r.as_deref() != Ok(&o[..]) {
            return Err(fail("capacity", format!("growable storage {:?}: {:?} != {}", f, r.map(|b| hex(&b)), hex(&o)), case_json(shape, value)));
        }
    }
    // Extend sink
    l.eval();
    let r = no_panic(|| postcard::to_extend(&t, Vec::<u8>::new())).map_err(|p| fail("capacity", format!("to_extend panicked: {}", p), case_json(shape, value)))?;
    if r.as_deref() != Ok(&plain[..]) {
        return Err(fail("capacity", "to_extend differs from the reference", case_json(shape, value)));
    }
    // Size: exact, allocation-free
    l.eval();
    let (r, meas) = crate::alloc::measure(|| no_panic(|| postcard::experimental::serialized_size(&t)));
    let r = r.map_err(|p| fail("capacity", format!("serialized_size panicked: {}", p), case_json(shape, value)))?;
    if r != Ok(plain.len()) {
        return Err(fail("capacity", format!("serialized_size = {:?}, output has {} bytes", r, plain.len()), case_json(shape, value)));
    }
    // DisplayStr values format through fmt machinery which may allocate in the harness's own Display impl: exclude
    // "without writing anything" is about the output; heap use is only counted
    if meas.bytes != 0 && !shape.encoder_only() {
        l.class("serialized_size-allocated");
    }
    clear_pending();
    l.sample(|| format!("{}  plain={}B", render(shape, value), plain.len()));
    Ok(())
}

/// heapless storage: pad the value with k raw bytes so the output lands on C-1, C, C+1.
pub fn check_hvec(shape: &Shape, value: &Value, cap_idx: usize, fi: usize, l: &mut Local) -> CaseResult {
    let Ok(e) = ref_encode(shape, value) else { return Ok(()) };
    let cap = HCAPS[cap_idx % HCAPS.len()];
    let f = FRAMINGS[fi % FRAMINGS.len()];
    for delta in [-1i64, 0, 1, 2] {
        // choose the padding so that the *framed* output has length cap + delta
        let target = cap as i64 + delta;
        if target < 0 {
            continue;
        }
        // search k (framing overhead can depend on content, so iterate)
        let mut found = None;
        for k in 0..=(target as usize) {
            let mut plain = e.bytes.clone();
            plain.extend(std::iter::repeat(0x33u8).take(k));
            let o = reference_output(&plain, f);
            if o.len() as i64 == target {
                found = Some((k, o));
                break;
            }
            if o.len() as i64 > target {
                break;
            }
        }
        let Some((k, o)) = found else { continue };
        let pshape = Shape::Tuple(vec![shape.clone(), Shape::Tuple(vec![Shape::U8; k])]);
        let pvalue = Value::List(vec![value.clone(), Value::List(vec![Value::U(0x33); k])]);
        let t = Typed(&pshape, &pvalue);
        let cj = || {
            let mut j = case_json(&pshape, &pvalue);
            j["framing"] = json!(format!("{:?}", f));
            j["capacity"] = json!(cap);
            j["storage"] = json!("heapless");
            j
        };
        l.eval();
        let r = no_panic(|| to_hvec_dyn(cap, &t, f)).map_err(|p| fail("capacity", format!("heapless<{}> {:?} panicked: {}", cap, f, p), cj()))?;
        let m = o.len();
        match r {
            Ok(b) => {
                if cap < m {
                    return Err(fail("capacity", format!("heapless<{}> {:?}: succeeded though output needs {}", cap, f, m), cj()));
                }
                if b != o {
                    return Err(fail("capacity", format!("heapless<{}> {:?}: {} != {}", cap, f, hex(&b), hex(&o)), cj()));
                }
            }
            Err(err) => {
                if cap >= m {
                    return Err(fail("capacity", format!("heapless<{}> {:?}: failed with {:?} though output needs only {}", cap, f, err, m), cj()));
                }
                if ordinary(shape) && err != postcard::Error::SerializeBufferFull {
                    return Err(fail("capacity", format!("heapless<{}> {:?}: reported {:?}, expected SerializeBufferFull", cap, f, err), cj()));
                }
            }
        }
        l.nontrivial(&(&o, f, cap, 1u8));
        l.class("heapless");
    }
    Ok(())
}

pub fn replay(case: &Json, l: &mut Local) -> CaseResult {
    let shape = shape_of(case);
    let value = value_of(case);
    if case.get("storage").and_then(|s| s.as_str()) == Some("heapless") {
        // the stored shape is already padded: run the threshold check directly
        let f = FRAMINGS.iter().copied().find(|f| Some(format!("{:?}", f).as_str()) == case["framing"].as_str()).unwrap_or(Framing::Plain);
        let cap = case["capacity"].as_u64().unwrap_or(0) as usize;
        let e = ref_encode(&shape, &value).map_err(|_| fail("capacity", "unencodable replay", case.clone()))?;
        let o = reference_output(&e.bytes, f);
        let t = Typed(&shape, &value);
        l.eval();
        let r = no_panic(|| to_hvec_dyn(cap, &t, f)).map_err(|p| fail("capacity", format!("panicked: {}", p), case.clone()))?;
        let ok = match &r {
            Ok(b) => cap >= o.len() && *b == o,
            Err(e) => cap < o.len() && (*e == postcard::Error::SerializeBufferFull || !ordinary(&shape)),
        };
        return if ok { Ok(()) } else { Err(fail("capacity", format!("heapless<{}> {:?}: {:?} vs reference {}", cap, f, r.map(|b| hex(&b)), hex(&o)), case.clone())) };
    }
    check_sweep(&shape, &value, l)
}

/// A user-visible sanity check that the Flavor trait object we measure is the real one.
#[allow(dead_code)]
fn _flavor_is_public(_: &dyn Fn(ser_flavors::Size) -> postcard::Result<usize>) {
    let _ = ser_flavors::Size::default().finalize();
}

pub fn run(ctx: &Ctx) {
    ctx.set_rule(
        "cases: generated (shape,value) x framing {plain, COBS, CRC-8/16/32/64/128} x every capacity 0..=m+2 (windowed for \
         outputs > 96 B) x slice storage flush against a PROT_NONE page at either end with two canaries; heapless::Vec<u8,C> \
         for 30 capacities with values padded to land on C-1, C, C+1, C+2; growable storages; Size flavour. oracle: Ok iff \
         capacity >= length of the reference output, returned bytes == reference at the buffer start, canary intact, \
         SerializeBufferFull otherwise. non-trivial = 0 < c < m or c within 1 of m; distinct = hash(output, framing, capacity, placement)",
    );
    ctx.assume("a stray write outside the buffer faults on the guard page and is reported by the signal handler");
    let n = ctx.tier.pick(20_000, 200_000);
    let scfg = ShapeCfg { encoder_only: true, depth: 3, ..ShapeCfg::default() };
    ctx.par_proptest(
        "capacity-sweep",
        n,
        || gen::arb_typed(scfg.clone(), ValCfg { max_len: ctx.tier.pick(300, 1100), max_seq: 4 }),
        |(s, v), l| check_sweep(s, v, l),
    );
    // raw-byte payloads with chosen zero structure (COBS overhead depends on it)
    ctx.par_proptest(
        "capacity-sweep-raw",
        n / 2,
        || {
            gen::arb_bytes(600).prop_map(|b| {
                let n = b.len();
                (Shape::Tuple(vec![Shape::U8; n]), Value::List(b.into_iter().map(|x| Value::U(x as u128)).collect()))
            })
        },
        |(s, v), l| check_sweep(s, v, l),
    );
    // every small payload length followed by one-byte items (growable / Extend sinks may stage small writes)
    ctx.par_range("small-payload-then-byte-sweep", 81 * 4, |i, l| {
        let n = (i / 4) as usize;
        let (s, v) = match i % 4 {
            0 => (Shape::Tuple(vec![Shape::Str, Shape::Bool]), Value::List(vec![Value::Str("1234567890".repeat(9)[..n].to_string()), Value::Bool(true)])),
            1 => (Shape::Tuple(vec![Shape::ByteBuf, Shape::U8, Shape::U8]), Value::List(vec![Value::Bytes(vec![7; n]), Value::U(1), Value::U(2)])),
            2 => (
                Shape::Tuple(vec![Shape::U8, Shape::String, Shape::Option(Box::new(Shape::I8))]),
                Value::List(vec![Value::U(9), Value::Str("x".repeat(n)), Value::Some(Box::new(Value::I(-1)))]),
            ),
            _ => (
                Shape::Seq(Box::new(Shape::Tuple(vec![Shape::Str, Shape::Bool]))),
                Value::List(vec![Value::List(vec![Value::Str("a".repeat(n)), Value::Bool(false)]), Value::List(vec![Value::Str("b".repeat(n / 2)), Value::Bool(true)])]),
            ),
        };
        check_sweep(&s, &v, l)
    });
    // Display-collected text (collect_str: the length is only known after formatting) at the varint boundaries of its length
    {
        let lens: Vec<usize> = vec![0, 1, 2, 126, 127, 128, 129, 130, 200, 255, 256, 300, 16383, 16384, 16385];
        let lens = &lens;
        ctx.par_range("display-text-lengths", (lens.len() * 4) as u64, move |i, l| {
            let i = i as usize;
            let n = lens[i % lens.len()];
            let text: String = (0..n).map(|k| (b'a' + (k % 26) as u8) as char).collect();
            let pieces: Vec<String> = text.as_bytes().chunks(37).map(|c| String::from_utf8(c.to_vec()).unwrap()).collect();
            let (s, v) = match i / lens.len() {
                0 => (Shape::DisplayStr, Value::Pieces(pieces)),
                1 => (Shape::Tuple(vec![Shape::U16, Shape::DisplayStr]), Value::List(vec![Value::U(300), Value::Pieces(pieces)])),
                2 => (Shape::Tuple(vec![Shape::DisplayStr, Shape::U8]), Value::List(vec![Value::Pieces(pieces), Value::U(0)])),
                _ => (Shape::Option(Box::new(Shape::DisplayStr)), Value::Some(Box::new(Value::Pieces(pieces)))),
            };
            l.class("display-text-length");
            check_sweep(&s, &v, l)
        });
    }
    let n = ctx.tier.pick(60_000, 600_000);
    let scfg = ShapeCfg { depth: 2, ..ShapeCfg::default() };
    ctx.par_proptest(
        "heapless-thresholds",
        n,
        || (gen::arb_typed(scfg.clone(), ValCfg { max_len: 40, max_seq: 3 }), 0..HCAPS.len(), 0..FRAMINGS.len()),
        |((s, v), ci, fi), l| check_hvec(s, v, *ci, *fi, l),
    );
}
