//! Checks over the concrete (hand-written and generated) type corpus, per property.
use crate::runner::Ctx;

pub fn c01(_ctx: &Ctx) {}
pub fn c02(_ctx: &Ctx) {}
pub fn c15(_ctx: &Ctx) {}
pub fn c16(_ctx: &Ctx) {}
pub fn c19(_ctx: &Ctx) {}
pub fn c17(_ctx: &Ctx) {}
