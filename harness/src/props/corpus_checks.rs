//! Checks over the concrete (hand-written and generated) type corpus, per property.

use crate::corpus::{self, CorpusType, Src};
use crate::dynmap;
use crate::record::conforms;
use crate::refcodec::{ref_decode, ref_encode};
use crate::runner::{fail, hex, no_panic, panic_site, CaseResult, Ctx, Local};
use crate::schematree::{self, Tree};
use postcard_schema::schema::owned::OwnedDataModelType;
use proptest::prelude::*;
use serde_json::{json, Value as Json};
use std::sync::OnceLock;

pub fn types() -> &'static Vec<CorpusType> {
    static T: OnceLock<Vec<CorpusType>> = OnceLock::new();
    T.get_or_init(corpus::all)
}

fn find(name: &str) -> Option<usize> {
    types().iter().position(|t| t.name == name)
}

fn cj(t: &CorpusType, data: &[u8], extreme: Option<usize>, prop: &str) -> Json {
    json!({"corpus_type": t.name, "data": hex(data), "extreme": extreme, "corpus_prop": prop, "corpus_seed": corpus::generated::SEED})
}

/// value of corpus type `ti`: extreme number `e` if given, else built from `data`
fn value(t: &CorpusType, data: &[u8], extreme: Option<usize>, json_mode: bool) -> Option<Box<dyn corpus::Erased>> {
    match extreme {
        Some(e) => (t.extremes)().into_iter().nth(e),
        None => {
            let mut s = Src::new(data, json_mode);
            Some((t.make)(&mut s))
        }
    }
}

fn arb_case(filter: fn(&CorpusType) -> bool) -> BoxedStrategy<(usize, Vec<u8>)> {
    let idx: Vec<usize> = types().iter().enumerate().filter(|(_, t)| filter(t)).map(|(i, _)| i).collect();
    let n = idx.len();
    (0..n, proptest::collection::vec(any::<u8>(), 0..160)).prop_map(move |(i, d)| (idx[i], d)).boxed()
}

fn all_extremes(filter: fn(&CorpusType) -> bool) -> Vec<(usize, usize)> {
    let mut v = vec![];
    for (i, t) in types().iter().enumerate() {
        if filter(t) {
            for e in 0..(t.extremes)().len() {
                v.push((i, e));
            }
        }
    }
    v
}

// ------------------------------------------------------------------ C01: concrete round-trip

fn c01_one(ti: usize, data: &[u8], extreme: Option<usize>, l: &mut Local) -> CaseResult {
    let t = &types()[ti];
    let Some(rt) = t.roundtrip else { return Ok(()) };
    let Some(v) = value(t, data, extreme, false) else { return Ok(()) };
    let c = || cj(t, data, extreme, "C01");
    l.eval();
    let bytes = no_panic(|| v.bytes()).map_err(|p| fail("corpus", format!("{}: to_allocvec panicked: {}", t.name, p), c()))?;
    let bytes = bytes.map_err(|e| fail("corpus", format!("{}: to_allocvec failed: {:?} for {}", t.name, e, v.dbg()), c()))?;
    let mut input = bytes.clone();
    input.extend_from_slice(&[0x00, 0xFF, 0x80]);
    let back = no_panic(|| rt(&input)).map_err(|p| fail("corpus", format!("{}: decode panicked: {}", t.name, p), c()))?;
    match back {
        Ok((b2, consumed)) if b2 == bytes && consumed == bytes.len() => {}
        other => {
            return Err(fail(
                "corpus",
                format!("{}: {} encodes to {} but decoding and re-encoding gives {:?}", t.name, v.dbg(), hex(&bytes), other.map(|(b, c)| (hex(&b), c))),
                c(),
            ))
        }
    }
    if bytes.len() >= 2 {
        l.nontrivial(&(t.name.as_str(), &bytes));
    }
    l.class("corpus-type-roundtrip");
    l.sample(|| format!("[{}] {} => {}", t.name, v.dbg(), hex(&bytes[..bytes.len().min(32)])));
    Ok(())
}

pub fn c01(ctx: &Ctx) {
    let n = ctx.tier.pick(600_000, 6_000_000);
    ctx.par_proptest("corpus-types", n, || arb_case(|t| t.roundtrip.is_some()), |(ti, d), l| c01_one(*ti, d, None, l));
    let ex = all_extremes(|t| t.roundtrip.is_some());
    ctx.par_range("corpus-extremes", ex.len() as u64, |i, l| c01_one(ex[i as usize].0, &[], Some(ex[i as usize].1), l));
}

// ------------------------------------------------------------------ C02: real types against the reference encoder

/// What a real type hands to serde (recorded call tree), encoded by the reference encoder, must
/// be byte-identical to what postcard emits for it.
fn c02_one(ti: usize, data: &[u8], extreme: Option<usize>, l: &mut Local) -> CaseResult {
    let t = &types()[ti];
    let Some(schema) = owned_schema(t) else { return Ok(()) };
    let Some(shape) = dynmap::tree_to_shape(&schematree::from_owned(&schema)) else { return Ok(()) };
    let Some(v) = value(t, data, extreme, false) else { return Ok(()) };
    let c = || cj(t, data, extreme, "C02");
    let Ok(call) = v.call() else { return Ok(()) };
    // conformance of the call tree to the schema is C14's business; skip what does not fit
    let Ok(val) = crate::record_value::call_to_value(&call, &shape) else { return Ok(()) };
    let Ok(want) = ref_encode(&shape, &val) else { return Ok(()) };
    l.eval();
    let got = no_panic(|| v.bytes()).map_err(|p| fail("corpus-wire", format!("{}: to_allocvec panicked: {}", t.name, p), c()))?;
    if got.as_ref() != Ok(&want.bytes) {
        return Err(fail(
            "corpus-wire",
            format!("{}: {} encodes to {:?} but the wire format prescribes {} for the data-model items it serialises as", t.name, v.dbg(), got.map(|b| hex(&b)), hex(&want.bytes)),
            c(),
        ));
    }
    if want.has_header || want.has_float || want.varint_spans.iter().any(|s| s.1 > 1) {
        l.nontrivial(&(t.name.as_str(), &want.bytes, 2u8));
    }
    l.class("corpus-type-wire");
    Ok(())
}

/// Schema-free variant: the recorded data-model items of a value (fields that `skip_field` omits are simply
/// absent) mapped through the wire-format rules == `to_allocvec`. Covers corpus types without a Schema impl too.
fn c02_call_wire(ti: usize, data: &[u8], extreme: Option<usize>, l: &mut Local) -> CaseResult {
    let t = &types()[ti];
    let Some(v) = value(t, data, extreme, false) else { return Ok(()) };
    let c = || cj(t, data, extreme, "C02");
    let Ok(call) = v.call() else { return Ok(()) };
    let mut want = vec![];
    if crate::record_value::wire_of_call(&call, &mut want).is_err() {
        return Ok(());
    }
    l.eval();
    let got = no_panic(|| v.bytes()).map_err(|p| fail("corpus-wire", format!("{}: to_allocvec panicked: {}", t.name, p), c()))?;
    if got.as_ref() != Ok(&want) {
        return Err(fail(
            "corpus-wire",
            format!("{}: {} encodes to {:?} but the wire format prescribes {} for the data-model items it serialises as", t.name, v.dbg(), got.map(|b| hex(&b)), hex(&want)),
            c(),
        ));
    }
    if want.len() >= 2 {
        l.nontrivial(&(t.name.as_str(), &want, 3u8));
    }
    l.class("corpus-type-call-wire");
    Ok(())
}

pub fn c02_replay_call_wire(case: &Json, l: &mut Local) -> Option<CaseResult> {
    if case.get("corpus_prop").and_then(|p| p.as_str()) != Some("C02") {
        return None;
    }
    let ti = find(case["corpus_type"].as_str().unwrap_or(""))?;
    let data = crate::runner::unhex(case["data"].as_str().unwrap_or(""));
    let ex = case["extreme"].as_u64().map(|e| e as usize);
    Some(c02_one(ti, &data, ex, l).and_then(|_| c02_call_wire(ti, &data, ex, l)))
}

pub fn c02(ctx: &Ctx) {
    let n = ctx.tier.pick(600_000, 6_000_000);
    ctx.par_proptest("corpus-types-call-wire", n / 2, || arb_case(|_| true), |(ti, d), l| c02_call_wire(*ti, d, None, l));
    let exa = all_extremes(|_| true);
    ctx.par_range("corpus-extremes-call-wire", exa.len() as u64, |i, l| c02_call_wire(exa[i as usize].0, &[], Some(exa[i as usize].1), l));
    let n = ctx.tier.pick(600_000, 6_000_000);
    ctx.par_proptest("corpus-types", n, || arb_case(|t| t.schema.is_some()), |(ti, d), l| c02_one(*ti, d, None, l));
    let ex = all_extremes(|t| t.schema.is_some());
    ctx.par_range("corpus-extremes", ex.len() as u64, |i, l| c02_one(ex[i as usize].0, &[], Some(ex[i as usize].1), l));
}

// ------------------------------------------------------------------ C03 / C04: decode differential for real types

/// Arbitrary bytes decoded as a real (derive-generated / std) type must be accepted exactly when
/// the reference decoder, driven only by the type's schema, accepts them, consume the same number
/// of bytes and denote the same value (compared through canonical re-encoding).
fn c03_one(ti: usize, input: &[u8], l: &mut Local) -> CaseResult {
    let t = &types()[ti];
    let (Some(rt), Some(schema)) = (t.roundtrip, owned_schema(t)) else { return Ok(()) };
    let tree = schematree::from_owned(&schema);
    let Some(shape) = dynmap::tree_to_shape(&tree) else { return Ok(()) };
    let c = || json!({"corpus_type": t.name, "data": hex(input), "extreme": Json::Null, "corpus_prop": "C03", "corpus_seed": corpus::generated::SEED});
    let reference = ref_decode(&shape, input);
    if reference.as_ref().err() == Some(&crate::refcodec::DecErr::ZeroWidthSkip) {
        l.skipped += 1;
        return Ok(());
    }
    l.eval();
    let got = no_panic(|| rt(input)).map_err(|p| fail("corpus-decode", format!("{}: decoding panicked: {}", t.name, p), c()))?;
    match (&reference, &got) {
        (Ok(d), Ok((re, consumed))) => {
            let want = ref_encode(&shape, &d.value).map(|e| e.bytes).unwrap_or_default();
            if *consumed != d.consumed || *re != want {
                return Err(fail(
                    "corpus-decode",
                    format!("{}: input {} decoded to a value that re-encodes as {} ({} bytes consumed); the schema-driven reference gives {} ({} bytes)", t.name, hex(input), hex(re), consumed, hex(&want), d.consumed),
                    c(),
                ));
            }
            l.class("corpus-decode-accepted");
            if d.noncanonical || d.consumed < input.len() {
                l.nontrivial(&(t.name.as_str(), input, 3u8));
            }
        }
        (Err(_), Err(_)) => {
            l.class("corpus-decode-rejected");
            l.nontrivial(&(t.name.as_str(), input, 3u8));
        }
        (Ok(d), Err(e)) => {
            return Err(fail("corpus-decode", format!("{}: rejected ({}) input {} which the specification allows for its schema ({} bytes)", t.name, e, hex(input), d.consumed), c()))
        }
        (Err(k), Ok((re, _))) => {
            return Err(fail("corpus-decode", format!("{}: accepted input {} (re-encodes as {}) which the specification rejects with {:?}", t.name, hex(input), hex(re), k), c()))
        }
    }
    Ok(())
}

pub fn c03(ctx: &Ctx) {
    let n = ctx.tier.pick(300_000, 4_000_000);
    // valid encodings of generated values with a few bytes damaged, and raw random bytes
    ctx.par_proptest(
        "corpus-types-decode-differential",
        n,
        || (arb_case(|t| t.strict_decode && t.roundtrip.is_some() && t.schema.is_some()), proptest::collection::vec((any::<u16>(), any::<u8>()), 0..3), any::<bool>()),
        |((ti, d), dmg, raw), l| {
            let t = &types()[*ti];
            if *raw {
                return c03_one(*ti, d, l);
            }
            let Some(v) = value(t, d, None, false) else { return Ok(()) };
            let Ok(mut b) = v.bytes() else { return Ok(()) };
            c03_one(*ti, &b, l)?;
            if b.is_empty() {
                return Ok(());
            }
            for (p, x) in dmg {
                let i = crate::gen::pick_idx(*p, b.len());
                b[i] = *x;
            }
            c03_one(*ti, &b, l)?;
            let cut = crate::gen::pick_idx(dmg.first().map_or(0, |d| d.0), b.len());
            c03_one(*ti, &b[..cut], l)
        },
    );
}

// ------------------------------------------------------------------ C12

fn c12_one(ti: usize, data: &[u8], extreme: Option<usize>, l: &mut Local) -> Result<usize, crate::runner::Fail> {
    let t = &types()[ti];
    let Some(max) = t.max_size else { return Ok(0) };
    let Some(v) = value(t, data, extreme, false) else { return Ok(0) };
    let c = || cj(t, data, extreme, "C12");
    l.eval();
    let bytes = no_panic(|| v.bytes()).map_err(|p| fail("max-size", format!("{}: to_allocvec panicked: {}", t.name, p), c()))?;
    let bytes = bytes.map_err(|e| fail("max-size", format!("{}: to_allocvec failed: {:?}", t.name, e), c()))?;
    let sz = no_panic(|| v.size()).map_err(|p| fail("max-size", format!("{}: serialized_size panicked: {}", t.name, p), c()))?;
    // (serialized_size is C05's subject; here it is only counted)
    if sz == Ok(bytes.len()) {
        l.class("serialized_size-agrees");
    }
    if bytes.len() > max {
        return Err(fail(
            "max-size",
            format!("{}: value {} encodes to {} bytes, more than POSTCARD_MAX_SIZE = {}", t.name, v.dbg(), bytes.len(), max),
            c(),
        ));
    }
    if max <= 1 << 20 {
        let r = no_panic(|| v.to_slice_cap(max)).map_err(|p| fail("max-size", format!("{}: to_slice panicked: {}", t.name, p), c()))?;
        if r != Ok(bytes.len()) {
            return Err(fail("max-size", format!("{}: a buffer of POSTCARD_MAX_SIZE = {} bytes did not suffice: {:?}", t.name, max, r), c()));
        }
    }
    if bytes.len() + 1 >= max {
        l.nontrivial(&(t.name.as_str(), &bytes));
        l.class("within-1-of-max");
    }
    l.sample(|| format!("[{}] MAX={} len={} value={}", t.name, max, bytes.len(), v.dbg()));
    Ok(bytes.len())
}

pub fn c12_replay(case: &Json, l: &mut Local) -> CaseResult {
    let Some(ti) = find(case["corpus_type"].as_str().unwrap_or("")) else {
        return Err(fail("max-size", "replay: unknown corpus type (generated corpus differs?)", case.clone()));
    };
    if case.get("tightness").is_some() {
        return c12_tight(ti, l);
    }
    let data = crate::runner::unhex(case["data"].as_str().unwrap_or(""));
    c12_one(ti, &data, case["extreme"].as_u64().map(|e| e as usize), l).map(|_| ())
}

fn c12_tight(ti: usize, l: &mut Local) -> CaseResult {
    let t = &types()[ti];
    let max = t.max_size.unwrap();
    let n = (t.extremes)().len();
    let mut best = 0;
    for e in 0..n {
        best = best.max(c12_one(ti, &[], Some(e), l)?);
    }
    if t.tight && best != max {
        return Err(fail(
            "max-size",
            format!("{}: POSTCARD_MAX_SIZE = {} but the largest encoding over the extreme values is {} (the maximum is claimed to be attained)", t.name, max, best),
            json!({"corpus_type": t.name, "tightness": true, "corpus_prop": "C12"}),
        ));
    }
    if t.tight {
        l.class("tightness-verified");
    }
    Ok(())
}

pub fn c12(ctx: &Ctx) {
    ctx.set_rule(
        "cases: every built-in MaxSize impl at several parameters (ints, isize/usize, floats, bool, char, (), Option, Result, arrays \
         0/1/2/32, NonZero*, PhantomData, tuples 1-6, 4 ranges, Box/Rc/Arc, heapless::Vec<T,N> / String<N> at N in {0,1,127,128, \
         16383,16384}), hand-written derive users (in-repo derive and the published derive re-exported by postcard::experimental), \
         127/128/129-variant enums and a generated corpus of random structs/enums using the in-repo derive; values = each type's \
         extremes (every variant; every field at MIN/MAX/4-byte char/full container) + random values from a byte source. oracle: \
         to_allocvec().len() <= POSTCARD_MAX_SIZE, to_slice into exactly POSTCARD_MAX_SIZE bytes succeeds, and \
         for the kinds the statement lists max over extremes == POSTCARD_MAX_SIZE. non-trivial = value within 1 byte of the declared \
         maximum; distinct = hash(type, bytes)",
    );
    ctx.assume("enums are only bounded, not tight (the derive sizes the discriminant by the variant count)");
    let idx: Vec<usize> = types().iter().enumerate().filter(|(_, t)| t.max_size.is_some()).map(|(i, _)| i).collect();
    ctx.extra.lock().unwrap().insert("types_with_max_size".into(), json!(idx.len()));
    ctx.extra.lock().unwrap().insert("generated_corpus_seed".into(), json!(corpus::generated::SEED));
    {
        let idx = &idx;
        ctx.par_range("extremes-and-tightness", idx.len() as u64, move |i, l| c12_tight(idx[i as usize], l));
    }
    let n = ctx.tier.pick(2_000_000, 20_000_000);
    ctx.par_proptest("random-values", n, || arb_case(|t| t.max_size.is_some()), |(ti, d), l| c12_one(*ti, d, None, l).map(|_| ()));
}

// ------------------------------------------------------------------ C14

fn owned_schema(t: &CorpusType) -> Option<OwnedDataModelType> {
    t.schema.map(|f| OwnedDataModelType::from(f()))
}

fn c14_one(ti: usize, data: &[u8], extreme: Option<usize>, l: &mut Local) -> CaseResult {
    let t = &types()[ti];
    let Some(schema) = owned_schema(t) else { return Ok(()) };
    let Some(v) = value(t, data, extreme, false) else { return Ok(()) };
    let c = || cj(t, data, extreme, "C14");
    l.eval();
    let call = no_panic(|| v.call()).map_err(|p| fail("schema-conform", format!("{}: recording panicked: {}", t.name, p), c()))?;
    let call = call.map_err(|e| fail("schema-conform", format!("{}: recording failed: {}", t.name, e), c()))?;
    if let Err(why) = conforms(&call, &schema) {
        return Err(fail(
            "schema-conform",
            format!("{}: value {} does not serialise as its Schema says: {}", t.name, v.dbg(), why),
            c(),
        ));
    }
    // consequence: a schema-driven reader parses the encoding exactly
    let tree = schematree::from_owned(&schema);
    let bytes = v.bytes().map_err(|e| fail("schema-conform", format!("{}: to_allocvec failed {:?}", t.name, e), c()))?;
    if let Some(shape) = dynmap::tree_to_shape(&tree) {
        match ref_decode(&shape, &bytes) {
            Ok(d) => {
                if d.consumed != bytes.len() {
                    return Err(fail(
                        "schema-conform",
                        format!("{}: a reader driven by the schema consumed {} of {} bytes of {}", t.name, d.consumed, bytes.len(), hex(&bytes)),
                        c(),
                    ));
                }
                let re = ref_encode(&shape, &d.value).map(|e| e.bytes);
                if re.as_ref() != Ok(&bytes) {
                    return Err(fail("schema-conform", format!("{}: schema-driven re-encoding differs from the encoding", t.name), c()));
                }
            }
            Err(crate::refcodec::DecErr::ZeroWidthSkip) => {}
            Err(e) => {
                return Err(fail(
                    "schema-conform",
                    format!("{}: a reader driven by the schema cannot parse {} ({:?})", t.name, hex(&bytes), e),
                    c(),
                ))
            }
        }
    }
    // variant coverage
    if let (OwnedDataModelType::Enum { variants, .. }, Some(idx)) = (&schema, top_variant(&call)) {
        l.class(&format!("variant:{}:{}/{}", t.name, idx, variants.len()));
    }
    let nontrivial = match &call {
        crate::record::Call::UnitVariant(_, i, _)
        | crate::record::Call::NewtypeVariant(_, i, _, _)
        | crate::record::Call::TupleVariant(_, i, _, _, _)
        | crate::record::Call::StructVariant(_, i, _, _, _) => *i > 0,
        _ => bytes.len() >= 2,
    };
    if nontrivial {
        l.nontrivial(&(t.name.as_str(), &bytes));
    }
    l.sample(|| format!("[{}] {} conforms to {}", t.name, v.dbg(), schema.to_pseudocode()));
    Ok(())
}

fn top_variant(c: &crate::record::Call) -> Option<u32> {
    use crate::record::Call as C;
    match c {
        C::UnitVariant(_, i, _) | C::NewtypeVariant(_, i, _, _) | C::TupleVariant(_, i, _, _, _) | C::StructVariant(_, i, _, _, _) => Option::Some(*i),
        _ => Option::None,
    }
}

/// The `alloc`-without-`use-std` flavour of postcard-schema is a different set of impls (impls/builtins_alloc.rs); it is
/// compiled into the separate binary harness-alloc (pcv-alloc), which runs the same recording + conformance oracle.
fn c14_alloc_flavour(verif_dir: &std::path::Path, seed: u64, cases: u64, only: Option<&str>, l: &mut Local) -> Result<Option<String>, crate::runner::Fail> {
    let exe = verif_dir.join("harness/target/alloc-flavour/release/pcv-alloc");
    let mut cmd = std::process::Command::new(&exe);
    cmd.arg(seed.to_string()).arg(cases.to_string());
    if let Some(o) = only {
        cmd.arg(o);
    }
    let out = match cmd.output() {
        Ok(o) if o.status.success() => o,
        Ok(o) => return Ok(Some(format!("pcv-alloc exited with {:?}: {}", o.status, String::from_utf8_lossy(&o.stderr).lines().last().unwrap_or("")))),
        Err(e) => return Ok(Some(format!("cannot run {}: {}", exe.display(), e))),
    };
    let text = String::from_utf8_lossy(&out.stdout);
    let Some(doc) = text.lines().rev().find_map(|ln| serde_json::from_str::<Json>(ln).ok()) else {
        return Ok(Some("pcv-alloc printed no summary".into()));
    };
    l.evals_n(doc["evaluations"].as_u64().unwrap_or(0));
    l.nontrivial_enum(doc["nontrivial"].as_u64().unwrap_or(0));
    if let Some(m) = doc["per_type"].as_object() {
        for (k, v) in m {
            l.class_n(&format!("alloc-only:{}", k), v.as_u64().unwrap_or(0));
        }
    }
    if let Some(a) = doc["samples"].as_array() {
        for x in a.iter().take(3) {
            l.sample(|| x.as_str().unwrap_or("").to_string());
        }
    }
    if !doc["failure"].is_null() {
        let f = &doc["failure"];
        return Err(fail(
            "schema-conform",
            format!(
                "postcard-schema built with `alloc` (no `use-std`): {} value {} does not serialise as its Schema `{}` says: {}",
                f["type"].as_str().unwrap_or("?"),
                f["value"].as_str().unwrap_or("?"),
                f["schema"].as_str().unwrap_or("?"),
                f["why"].as_str().unwrap_or("?")
            ),
            json!({"alloc_only": {"type": f["type"], "seed": seed, "cases": cases, "value": f["value"]}}),
        ));
    }
    Ok(None)
}

pub fn c14_replay(case: &Json, l: &mut Local) -> CaseResult {
    if let Some(a) = case.get("alloc_only") {
        let vd = std::path::PathBuf::from(std::env::var("VERIF_DIR").unwrap_or_else(|_| "/verif".into()));
        return match c14_alloc_flavour(&vd, a["seed"].as_u64().unwrap_or(1), a["cases"].as_u64().unwrap_or(1000), a["type"].as_str(), l)? {
            Some(why) => Err(fail("schema-conform", format!("replay: {}", why), case.clone())),
            None => Ok(()),
        };
    }
    let Some(ti) = find(case["corpus_type"].as_str().unwrap_or("")) else {
        return Err(fail("schema-conform", "replay: unknown corpus type (generated corpus differs?)", case.clone()));
    };
    let data = crate::runner::unhex(case["data"].as_str().unwrap_or(""));
    c14_one(ti, &data, case["extreme"].as_u64().map(|e| e as usize), l)
}

pub fn c14(ctx: &Ctx) {
    ctx.set_rule(
        "cases: every built-in Schema impl (ints, NonZero*, floats, char, str/String/PathBuf, (), tuples 1-6, arrays, Vec/sets, maps, \
         Option, Result, 4 ranges, the alloc-only (no use-std) Vec/String/BTreeMap/BTreeSet impls via the pcv-alloc binary, heapless 0.7/0.8, Uuid, DateTime<Utc|FixedOffset>, SMatrix, Key, DataModelType, OwnedDataModelType) \
         and hand-written + generated derive users (unit/newtype/tuple/named structs, all four variant forms, generics, nesting, raw \
         identifiers) x values covering every variant (extremes) + random values. oracle: the serde call tree recorded for the value \
         conforms strictly to T::SCHEMA (kinds, field names and order, variant names and indices, arity, element types; Schema kind \
         against a hand-written schema-of-schemas), and a reader that knows only the schema (schema -> shape -> reference decoder) \
         parses to_allocvec(v) consuming it exactly and re-encodes to the same bytes. non-trivial = value of a non-first variant, or \
         encoding >= 2 bytes; distinct = hash(type, bytes); per-(type,variant) coverage in 'classes'",
    );
    ctx.assume("struct/enum *type* names are not compared (the statement does not list them)");
    let n_types = types().iter().filter(|t| t.schema.is_some()).count();
    ctx.extra.lock().unwrap().insert("types_with_schema".into(), json!(n_types));
    ctx.extra.lock().unwrap().insert("generated_corpus_seed".into(), json!(corpus::generated::SEED));
    let ex = all_extremes(|t| t.schema.is_some());
    ctx.par_range("extremes", ex.len() as u64, |i, l| c14_one(ex[i as usize].0, &[], Some(ex[i as usize].1), l));
    let na = ctx.tier.pick(1500, 25_000);
    ctx.serial("alloc-only-flavour", |l| {
        if let Some(why) = c14_alloc_flavour(&ctx.verif_dir, ctx.seed, na, None, l)? {
            ctx.inconclusive.lock().unwrap().push(format!("alloc-only-flavour: {}", why));
        }
        Ok(())
    });
    let n = ctx.tier.pick(2_000_000, 20_000_000);
    ctx.par_proptest("random-values", n, || arb_case(|t| t.schema.is_some()), |(ti, d), l| c14_one(*ti, d, None, l));
}

// ------------------------------------------------------------------ C15 / C16 / C19 over corpus schemas

fn corpus_trees() -> Vec<(usize, Tree)> {
    types()
        .iter()
        .enumerate()
        .filter_map(|(i, t)| owned_schema(t).map(|s| (i, schematree::from_owned(&s))))
        .collect()
}

pub fn c15(ctx: &Ctx) {
    let trees = corpus_trees();
    ctx.par_range("corpus-schemas", trees.len() as u64, |i, l| {
        let (ti, tree) = &trees[i as usize];
        // the static schema itself, not a rebuilt copy: borrowed vs owned vs deserialised
        let t = &types()[*ti];
        let st = (t.schema.unwrap())();
        let owned = OwnedDataModelType::from(st);
        l.eval();
        let b1 = postcard::to_allocvec(st).map_err(|e| fail("schema-wire", format!("{}: {:?}", t.name, e), json!({"tree": tree})))?;
        let b2 = postcard::to_allocvec(&owned).map_err(|e| fail("schema-wire", format!("{}: {:?}", t.name, e), json!({"tree": tree})))?;
        if b1 != b2 {
            return Err(fail("schema-wire", format!("{}: SCHEMA and its owned conversion serialise differently", t.name), json!({"tree": tree})));
        }
        super::c15::check(tree, l)
    });
}

pub fn c16(ctx: &Ctx) {
    let trees = corpus_trees();
    ctx.par_range("corpus-keys", trees.len() as u64 * 3, |i, l| {
        let (ti, tree) = &trees[(i / 3) as usize];
        let t = &types()[*ti];
        let path = ["", "topic/a", "данные/路径"][(i % 3) as usize];
        l.eval();
        let k = (t.key.unwrap())(path);
        let want = schematree::ref_key(path, tree);
        if k != want {
            return Err(fail(
                "key",
                format!("Key::for_path::<{}>({:?}) = {} but FNV-1a over path ++ documented stream is {}", t.name, path, hex(&k), hex(&want)),
                json!({"path": path, "tree": tree}),
            ));
        }
        let owned = schematree::to_owned_expected(tree);
        if postcard_schema::key::Key::for_owned_schema_path(path, &owned).to_bytes() != k {
            return Err(fail("key", format!("{}: compile-time and run-time keys differ", t.name), json!({"path": path, "tree": tree})));
        }
        l.class("corpus-type-key");
        l.nontrivial(&(path, tree, 5u8));
        Ok(())
    });
}

pub fn c19(ctx: &Ctx) {
    let trees = corpus_trees();
    ctx.par_range("corpus-schemas", trees.len() as u64, |i, l| super::c19::check(&trees[i as usize].1, l));
}

// ------------------------------------------------------------------ C17 over corpus types

fn c17_one(ti: usize, data: &[u8], extreme: Option<usize>, l: &mut Local) -> CaseResult {
    let t = &types()[ti];
    let Some(schema) = owned_schema(t) else { return Ok(()) };
    let c = || cj(t, data, extreme, "C17");
    let v = match extreme {
        Some(e) => match (t.extremes)().into_iter().nth(e) {
            Some(v) => v,
            None => return Ok(()),
        },
        None => {
            let mut s = Src::new(data, true);
            (t.make)(&mut s)
        }
    };
    let Some(j) = v.json() else { return Ok(()) };
    let bytes = v.bytes().map_err(|e| fail("corpus-dyn", format!("{}: {:?}", t.name, e), c()))?;
    l.eval();
    let enc = no_panic(|| postcard_dyn::to_stdvec_dyn(&schema, &j))
        .map_err(|p| fail("corpus-dyn", format!("{}: to_stdvec_dyn panicked: {}", t.name, p), c()).sig(format!("panic:{}", panic_site(&p))))?;
    if enc.as_ref() != Ok(&bytes) {
        return Err(fail(
            "corpus-dyn",
            format!("{}: to_stdvec_dyn(SCHEMA, {}) = {:?}, the static encoder gives {}", t.name, j, enc.map(|b| hex(&b)), hex(&bytes)),
            c(),
        ));
    }
    let dec = no_panic(|| postcard_dyn::from_slice_dyn(&schema, &bytes))
        .map_err(|p| fail("corpus-dyn", format!("{}: from_slice_dyn panicked: {}", t.name, p), c()).sig(format!("panic:{}", panic_site(&p))))?;
    if dec.as_ref() != Ok(&j) {
        return Err(fail("corpus-dyn", format!("{}: from_slice_dyn(SCHEMA, {}) = {:?}, serde_json gives {}", t.name, hex(&bytes), dec, j), c()));
    }
    l.class("corpus-type-dyn");
    if j.is_array() || j.is_object() {
        l.nontrivial(&(t.name.as_str(), &bytes, 17u8));
    }
    l.sample(|| format!("[{}] {} json={}", t.name, v.dbg(), j));
    Ok(())
}

pub fn c17(ctx: &Ctx) {
    let n = ctx.tier.pick(1_000_000, 10_000_000);
    ctx.par_proptest(
        "corpus-types",
        n,
        || arb_case(|t| t.schema.is_some() && t.json_faithful),
        |(ti, d), l| c17_one(*ti, d, None, l),
    );
}

/// Replay for corpus-based failures of any property (dispatch on "corpus_prop").
pub fn replay_corpus(case: &Json, l: &mut Local) -> Option<CaseResult> {
    let prop = case.get("corpus_prop")?.as_str()?;
    let Some(ti) = find(case["corpus_type"].as_str().unwrap_or("")) else {
        return Some(Err(fail("corpus", "replay: unknown corpus type (generated corpus differs?)", case.clone())));
    };
    let data = crate::runner::unhex(case["data"].as_str().unwrap_or(""));
    let ex = case["extreme"].as_u64().map(|e| e as usize);
    Some(match prop {
        "C01" => c01_one(ti, &data, ex, l),
        "C02" => c02_one(ti, &data, ex, l),
        "C03" => c03_one(ti, &data, l),
        "C12" => c12_replay(case, l),
        "C14" => c14_one(ti, &data, ex, l),
        "C17" => c17_one(ti, &data, ex, l),
        _ => Ok(()),
    })
}
