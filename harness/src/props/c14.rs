//! C14 — a type's Schema describes exactly what its Serialize writes (see corpus_checks).
use crate::runner::{CaseResult, Ctx, Local};
use serde_json::Value as Json;

pub fn run(ctx: &Ctx) {
    super::corpus_checks::c14(ctx)
}
pub fn replay(case: &Json, l: &mut Local) -> CaseResult {
    super::corpus_checks::c14_replay(case, l)
}
