//! C13 — fixed-width integer adapters emit exactly size_of bytes in the chosen byte order.

use crate::dynshape::{Shape, Value};
use crate::iodoubles::{ChunkWriter, Fault, Schedule};
use crate::refcodec::ref_encode;
use crate::runner::{fail, hex, no_panic, CaseResult, Ctx, Local, Tier};
use proptest::prelude::*;
use serde::{Deserialize, Serialize};
use serde_json::{json, Value as Json};

pub struct Adapter {
    pub name: &'static str,
    pub bits: u32,
    pub check: fn(u128, u8, u16, &mut Local) -> CaseResult,
}

thread_local! {
    static LIGHT: std::cell::Cell<bool> = const { std::cell::Cell::new(false) };
}
fn light() -> bool {
    LIGHT.with(|l| l.get())
}

fn varint_u16(v: u16) -> Vec<u8> {
    ref_encode(&Shape::U16, &Value::U(v as u128)).unwrap().bytes
}

macro_rules! adapter {
    ($fname:ident, $sname:ident, $t:ty, $module:literal, $tobytes:ident, $label:literal, $le:expr) => {
        #[derive(Serialize, Deserialize, PartialEq, Debug, Clone)]
        struct $sname {
            before: u8,
            #[serde(with = $module)]
            x: $t,
            after: u16,
        }

        fn $fname(raw: u128, before: u8, after: u16, l: &mut Local) -> CaseResult {
            let x = raw as $t;
            let cj = || json!({"adapter": $label, "raw": format!("{}", raw), "before": before, "after": after});
            let v = $sname { before, x, after };
            // expected bytes, written without to_le_bytes/to_be_bytes: extract by shifting
            const N: usize = std::mem::size_of::<$t>();
            let ux = raw & (if N == 16 { u128::MAX } else { (1u128 << (8 * N)) - 1 });
            let mut want = vec![before];
            for i in 0..N {
                let k = if $le { i } else { N - 1 - i };
                want.push(((ux >> (8 * k)) & 0xFF) as u8);
            }
            want.extend(varint_u16(after));
            l.eval();
            let got = no_panic(|| postcard::to_allocvec(&v)).map_err(|p| fail("fixint", format!("serialise panicked: {}", p), cj()))?;
            let got = got.map_err(|e| fail("fixint", format!("serialise failed: {:?}", e), cj()))?;
            if got != want {
                return Err(fail("fixint", format!("{}: {} encoded as {}, expected {}", $label, x, hex(&got), hex(&want)), cj()));
            }
            let back = no_panic(|| postcard::take_from_bytes::<$sname>(&got)).map_err(|p| fail("fixint", format!("deserialise panicked: {}", p), cj()))?;
            match back {
                Ok((b, rem)) if b == v && rem.is_empty() => {}
                other => return Err(fail("fixint", format!("{}: decoding {} gave {:?}", $label, hex(&got), other), cj())),
            }
            // through a byte reader: nothing in this struct is borrowed, so an empty scratch buffer suffices
            let mut empty: [u8; 0] = [];
            let via_io = no_panic(|| postcard::from_io::<$sname, _>((&got[..], &mut empty[..])).map(|(v, (rest, _))| (v, rest.len())))
                .map_err(|p| fail("fixint", format!("from_io panicked: {}", p), cj()))?;
            match via_io {
                Ok((b, 0)) if b == v => {}
                other => return Err(fail("fixint", format!("{}: decoding {} through from_io with an empty scratch buffer gave {:?}", $label, hex(&got), other), cj())),
            }
            let mut empty: [u8; 0] = [];
            let via_eio = no_panic(|| postcard::from_eio::<$sname, _>((&got[..], &mut empty[..])).map(|(v, (rest, _))| (v, rest.len())))
                .map_err(|p| fail("fixint", format!("from_eio panicked: {}", p), cj()))?;
            match via_eio {
                Ok((b, 0)) if b == v => {}
                other => return Err(fail("fixint", format!("{}: decoding {} through from_eio with an empty scratch buffer gave {:?}", $label, hex(&got), other), cj())),
            }
            // (the transports below are skipped in the 2^33-point exhaustive sweep of the thorough tier, which checks the
            // byte-exact encoding and the slice / reader decodes of every value)
            if !light() {
            // a reader that delivers one or two bytes per call and reports Interrupted in between (not an error by the
            // std::io convention) yields the same value
            {
                let mut empty: [u8; 0] = [];
                let rd = crate::iodoubles::ChunkReader::new(&got, Schedule { chunks: vec![1, 2], interrupt_every: 2 + (before as usize % 3) }, Fault::None);
                let r = no_panic(|| postcard::from_io::<$sname, _>((rd, &mut empty[..])).map(|(v, _)| v)).map_err(|p| fail("fixint", format!("from_io panicked: {}", p), cj()))?;
                if r.as_ref() != Ok(&v) {
                    return Err(fail("fixint", format!("{}: decoding {} through a reader with short reads and Interrupted gave {:?}", $label, hex(&got), r), cj()));
                }
            }
            // CRC-framed: single-byte items, a bulk item, single-byte items again; the frame is the same bytes + their CRC-32
            {
                #[derive(Serialize, Deserialize, PartialEq, Debug)]
                struct Sandwich {
                    flag: bool,
                    #[serde(with = $module)]
                    x: $t,
                    mid: u32,
                    #[serde(with = $module)]
                    y: $t,
                    end: u8,
                }
                static CRC: crc::Crc<u32> = crc::Crc::<u32>::new(&crc::CRC_32_ISCSI);
                let y = (raw.rotate_left(17) ^ 0x5A5A_5A5A_5A5A_5A5A_5A5A_5A5A_5A5A_5A5Au128) as $t;
                let sw = Sandwich { flag: before % 2 == 1, x, mid: 70_000 + after as u32, y, end: before };
                let plain = no_panic(|| postcard::to_allocvec(&sw)).map_err(|p| fail("fixint", format!("serialise panicked: {}", p), cj()))?.map_err(|e| fail("fixint", format!("serialise failed: {:?}", e), cj()))?;
                let mut frame = plain.clone();
                frame.extend_from_slice(&CRC.checksum(&plain).to_le_bytes());
                let got = no_panic(|| postcard::to_allocvec_crc32(&sw, CRC.digest())).map_err(|p| fail("fixint", format!("to_allocvec_crc32 panicked: {}", p), cj()))?;
                if got.as_ref() != Ok(&frame) {
                    return Err(fail("fixint", format!("{}: CRC-framed encoding = {:?}, the plain bytes followed by their CRC-32 are {}", $label, got.map(|b| hex(&b)), hex(&frame)), cj()));
                }
                let back = no_panic(|| postcard::from_bytes_crc32::<Sandwich>(&frame, CRC.digest())).map_err(|p| fail("fixint", format!("from_bytes_crc32 panicked: {}", p), cj()))?;
                if back.as_ref() != Ok(&sw) {
                    return Err(fail("fixint", format!("{}: CRC-framed message {} decodes as {:?}", $label, hex(&frame), back), cj()));
                }
            }
            // COBS-framed: the frame is the COBS transform of the same bytes, and decodes back - also when the fixed-width
            // field closes a message that ends on / right behind a full 254-byte block
            {
                #[derive(Serialize, Deserialize, PartialEq, Debug)]
                struct Padded {
                    pad: Vec<u8>,
                    #[serde(with = $module)]
                    x: $t,
                }
                for padlen in [0usize, (before as usize) % 16, 250 + (after as usize % 8), 251usize.saturating_sub(N), 252usize.saturating_sub(N) + (before as usize % 3)] {
                    let p = Padded { pad: vec![0x5A; padlen], x };
                    let mut plain = crate::refcodec::ref_encode(&Shape::U64, &Value::U(padlen as u128)).unwrap().bytes;
                    plain.extend(std::iter::repeat(0x5A).take(padlen));
                    plain.extend_from_slice(&want[1..1 + N]);
                    let frame = crate::refcobs::frame(&plain);
                    let enc = no_panic(|| postcard::to_allocvec_cobs(&p)).map_err(|p| fail("fixint", format!("to_allocvec_cobs panicked: {}", p), cj()))?;
                    if enc.as_ref() != Ok(&frame) {
                        return Err(fail("fixint", format!("{}: COBS-framed encoding with {} pad bytes = {:?}, expected {}", $label, padlen, enc.map(|b| hex(&b)), hex(&frame)), cj()));
                    }
                    if frame.len() <= 512 {
                        for piece in [usize::MAX, 8, 3] {
                            let got = no_panic(|| {
                                let mut acc = postcard::accumulator::CobsAccumulator::<512>::new();
                                let mut out: Option<Padded> = None;
                                for chunk in frame.chunks(piece.min(frame.len().max(1))) {
                                    let mut window = chunk;
                                    while !window.is_empty() {
                                        window = match acc.feed::<Padded>(window) {
                                            postcard::accumulator::FeedResult::Consumed => break,
                                            postcard::accumulator::FeedResult::OverFull(w) => w,
                                            postcard::accumulator::FeedResult::DeserError(w) => w,
                                            postcard::accumulator::FeedResult::Success { data, remaining } => {
                                                out = Some(data);
                                                remaining
                                            }
                                        };
                                    }
                                }
                                out
                            })
                            .map_err(|p| fail("fixint", format!("accumulator panicked: {}", p), cj()))?;
                            if got.as_ref() != Some(&p) {
                                return Err(fail("fixint", format!("{}: the COBS frame {} fed to an accumulator in pieces of {} bytes yields {:?}", $label, hex(&frame), piece.min(frame.len()), got.map(|g| g.x)), cj()));
                            }
                        }
                    }
                    let mut f2 = frame.clone();
                    let back = no_panic(|| postcard::from_bytes_cobs::<Padded>(&mut f2)).map_err(|p| fail("fixint", format!("from_bytes_cobs panicked: {}", p), cj()))?;
                    if back.as_ref() != Ok(&p) {
                        return Err(fail("fixint", format!("{}: COBS-framed message with {} pad bytes decodes as {:?}", $label, padlen, back.map(|b| b.x)), cj()));
                    }
                }
            }
            }
            // the writer path emits the same bytes
            let via_w = no_panic(|| postcard::to_io(&v, Vec::<u8>::new())).map_err(|p| fail("fixint", format!("to_io panicked: {}", p), cj()))?;
            if via_w.as_deref() != Ok(&want[..]) {
                return Err(fail("fixint", format!("{}: to_io wrote {:?}", $label, via_w.map(|b| hex(&b))), cj()));
            }
            if !light() {
            // a writer that accepts only a few bytes per call receives the same bytes
            {
                let k = 1 + (before as usize % 3);
                let mut cw = ChunkWriter::new(Schedule { chunks: vec![k, 1, k + 5], interrupt_every: if after % 2 == 0 { 0 } else { 3 } }, Fault::None, false);
                let r = no_panic(|| postcard::to_io(&v, &mut cw).map(|_| ())).map_err(|p| fail("fixint", format!("to_io panicked: {}", p), cj()))?;
                if r.is_err() || cw.accepted != want {
                    return Err(fail("fixint", format!("{}: to_io into a writer taking <= {} bytes per call: {:?}, writer holds {}, expected {}", $label, k + 5, r, hex(&cw.accepted), hex(&want)), cj()));
                }
            }
            // a slice of exactly the encoded length is enough, also when the fixed-width field comes last
            {
                #[derive(Serialize)]
                struct Tail {
                    head: u16,
                    #[serde(with = $module)]
                    x: $t,
                }
                let t = Tail { head: after, x };
                let mut want_t = varint_u16(after);
                want_t.extend_from_slice(&want[1..1 + N]);
                for (what, res, expect) in [
                    ("{before, x, after}", { let mut b = vec![0xEEu8; want.len()]; no_panic(|| postcard::to_slice(&v, &mut b).map(|s| s.to_vec())) }, &want),
                    ("{head, x}", { let mut b = vec![0xEEu8; want_t.len()]; no_panic(|| postcard::to_slice(&t, &mut b).map(|s| s.to_vec())) }, &want_t),
                ] {
                    let res = res.map_err(|p| fail("fixint", format!("to_slice panicked: {}", p), cj()))?;
                    if res.as_ref() != Ok(expect) {
                        return Err(fail("fixint", format!("{}: to_slice of {} into a buffer of exactly {} bytes gave {:?}, expected {}", $label, what, expect.len(), res.map(|b| hex(&b)), hex(expect)), cj()));
                    }
                }
                let mut b = vec![0xEEu8; want_t.len() - 1];
                match no_panic(|| postcard::to_slice(&t, &mut b).map(|s| s.len())) {
                    // (which error: C05's statement) 
                    Ok(Err(_)) => {}
                    other => return Err(fail("fixint", format!("{}: to_slice of {{head, x}} into {} bytes (one short) gave {:?}", $label, want_t.len() - 1, other), cj())),
                }
                let via_w = no_panic(|| postcard::to_io(&t, Vec::<u8>::new())).map_err(|p| fail("fixint", format!("to_io panicked: {}", p), cj()))?;
                if via_w.as_deref() != Ok(&want_t[..]) {
                    return Err(fail("fixint", format!("{}: to_io of {{head, x}} wrote {:?}", $label, via_w.map(|b| hex(&b))), cj()));
                }
            }
            }
            // one byte short of the fixed field
            let short = &got[..1 + N - 1];
            match no_panic(|| postcard::from_bytes::<$sname>(short)) {
                // (which error: C03's statement)
                Ok(Err(_)) => {}
                other => return Err(fail("fixint", format!("{}: {} bytes of a {}-byte field gave {:?}", $label, N - 1, N, other), cj())),
            }
            // non-trivial: LE and BE byte strings differ
            let mut rev = want[1..1 + N].to_vec();
            rev.reverse();
            if rev != want[1..1 + N] {
                l.nontrivial(&($label, ux));
            }
            l.sample(|| format!("{} x={} -> {}", $label, x, hex(&got)));
            Ok(())
        }
    };
}

adapter!(chk_u16_le, Su16le, u16, "postcard::fixint::le", to_le_bytes, "u16/le", true);
adapter!(chk_u16_be, Su16be, u16, "postcard::fixint::be", to_be_bytes, "u16/be", false);
adapter!(chk_i16_le, Si16le, i16, "postcard::fixint::le", to_le_bytes, "i16/le", true);
adapter!(chk_i16_be, Si16be, i16, "postcard::fixint::be", to_be_bytes, "i16/be", false);
adapter!(chk_u32_le, Su32le, u32, "postcard::fixint::le", to_le_bytes, "u32/le", true);
adapter!(chk_u32_be, Su32be, u32, "postcard::fixint::be", to_be_bytes, "u32/be", false);
adapter!(chk_i32_le, Si32le, i32, "postcard::fixint::le", to_le_bytes, "i32/le", true);
adapter!(chk_i32_be, Si32be, i32, "postcard::fixint::be", to_be_bytes, "i32/be", false);
adapter!(chk_u64_le, Su64le, u64, "postcard::fixint::le", to_le_bytes, "u64/le", true);
adapter!(chk_u64_be, Su64be, u64, "postcard::fixint::be", to_be_bytes, "u64/be", false);
adapter!(chk_i64_le, Si64le, i64, "postcard::fixint::le", to_le_bytes, "i64/le", true);
adapter!(chk_i64_be, Si64be, i64, "postcard::fixint::be", to_be_bytes, "i64/be", false);
adapter!(chk_u128_le, Su128le, u128, "postcard::fixint::le", to_le_bytes, "u128/le", true);
adapter!(chk_u128_be, Su128be, u128, "postcard::fixint::be", to_be_bytes, "u128/be", false);
adapter!(chk_i128_le, Si128le, i128, "postcard::fixint::le", to_le_bytes, "i128/le", true);
adapter!(chk_i128_be, Si128be, i128, "postcard::fixint::be", to_be_bytes, "i128/be", false);

pub fn adapters() -> Vec<Adapter> {
    vec![
        Adapter { name: "u16/le", bits: 16, check: chk_u16_le },
        Adapter { name: "u16/be", bits: 16, check: chk_u16_be },
        Adapter { name: "i16/le", bits: 16, check: chk_i16_le },
        Adapter { name: "i16/be", bits: 16, check: chk_i16_be },
        Adapter { name: "u32/le", bits: 32, check: chk_u32_le },
        Adapter { name: "u32/be", bits: 32, check: chk_u32_be },
        Adapter { name: "i32/le", bits: 32, check: chk_i32_le },
        Adapter { name: "i32/be", bits: 32, check: chk_i32_be },
        Adapter { name: "u64/le", bits: 64, check: chk_u64_le },
        Adapter { name: "u64/be", bits: 64, check: chk_u64_be },
        Adapter { name: "i64/le", bits: 64, check: chk_i64_le },
        Adapter { name: "i64/be", bits: 64, check: chk_i64_be },
        Adapter { name: "u128/le", bits: 128, check: chk_u128_le },
        Adapter { name: "u128/be", bits: 128, check: chk_u128_be },
        Adapter { name: "i128/le", bits: 128, check: chk_i128_le },
        Adapter { name: "i128/be", bits: 128, check: chk_i128_be },
    ]
}

pub fn replay(case: &Json, l: &mut Local) -> CaseResult {
    let name = case["adapter"].as_str().unwrap_or("");
    let raw: u128 = case["raw"].as_str().unwrap_or("0").parse().unwrap_or(0);
    let ads = adapters();
    let a = ads.iter().find(|a| a.name == name).ok_or_else(|| fail("fixint", "unknown adapter in replay", case.clone()))?;
    (a.check)(raw, case["before"].as_u64().unwrap_or(0) as u8, case["after"].as_u64().unwrap_or(0) as u16, l)
}

pub fn run(ctx: &Ctx) {
    ctx.set_rule(
        "cases: 16 structs {before: u8, #[serde(with = fixint::le|be)] x: T, after: u16} for T in u16..u128, i16..i128; all 65536 \
         values for the 16-bit types; for wider types every single-non-zero-byte pattern (position x 255), boundaries and \
         bit-length-stratified random values. oracle: bytes == [before] ++ the integer's bytes in the chosen order (extracted by \
         shifting) ++ varint(after); decode returns the original (slice, from_io, from_eio, from_io with short reads + Interrupted); COBS-framed encoding of {pad, x} with 0 / ~250 pad bytes equals the COBS transform of the same bytes and decodes back; to_io into a whole-buffer writer and into a writer accepting 1..8 bytes per call (with Interrupted) delivers the same bytes; to_slice into a buffer of exactly the encoded length succeeds also when the fixed-width field is last ({head: u16, x}) and one byte less is an error; a field one byte short is an error. non-trivial = value \
         whose little- and big-endian byte strings differ; distinct = hash(adapter, value)",
    );
    let ads = adapters();
    // exhaustive 16-bit
    {
        let ads = &ads;
        ctx.par_range("exhaustive-16-bit", 4 * 65536, move |i, l| {
            let a = &ads[(i / 65536) as usize];
            let before = l.nontrivial.len();
            let r = (a.check)((i % 65536) as u128, (i % 251) as u8, (i % 65521) as u16, l);
            if l.nontrivial.len() > before {
                l.nontrivial.clear();
                l.nontrivial_enum(1);
            }
            r
        });
    }
    ctx.exhausted("all 65536 values of u16 and i16 through both adapters");
    // single non-zero byte patterns + boundaries for wider types
    {
        let ads = &ads;
        ctx.par_range("single-byte-patterns", 12 * 16 * 256, move |i, l| {
            let a = &ads[4 + (i / (16 * 256)) as usize];
            let pos = ((i / 256) % 16) as u32;
            let b = (i % 256) as u128;
            if pos * 8 >= a.bits {
                return Ok(());
            }
            (a.check)(b << (8 * pos), 0xAB, 300, l)?;
            // and the complement (all other bytes FF)
            (a.check)(!(b << (8 * pos)), 0x00, 0xFFFF, l)
        });
    }
    let n = ctx.tier.pick(6_000_000, 60_000_000);
    ctx.par_proptest(
        "stratified-random",
        n,
        || (4usize..16, crate::gen::arb_unsigned(128), any::<u8>(), any::<u16>()),
        {
            let ads: Vec<Adapter> = adapters();
            move |(ai, raw, b, a): &(usize, u128, u8, u16), l: &mut Local| (ads[*ai].check)(*raw, *b, *a, l)
        },
    );
    if ctx.tier == Tier::Thorough {
        let ads = &ads;
        ctx.par_range("exhaustive-32-bit-u32-le-be", 2u64 << 32, move |i, l| {
            let a = &ads[4 + (i >> 32) as usize];
            let before = l.nontrivial.len();
            // every 65537th value with all transports, the others with the core checks only
            LIGHT.with(|f| f.set(i % 65537 != 0));
            let r = (a.check)((i & 0xFFFF_FFFF) as u128, 1, 2, l);
            LIGHT.with(|f| f.set(false));
            if l.nontrivial.len() > before {
                l.nontrivial.clear();
                l.nontrivial_enum(1);
            }
            r
        });
        ctx.exhausted("all 2^32 values of u32 through both adapters");
    }
}
