//! C16 — schema keys: both hashers agree and equal the documented FNV-1a stream.

use crate::runner::{fail, hex, no_panic, CaseResult, Ctx, Local};
use crate::schematree::{self, MutClass, StaticHolder, TData, Tree, TreeCfg};
use postcard_schema::key::hash::fnv1a64::verif_hash_static;
use postcard_schema::key::Key;
use proptest::prelude::*;
use serde_json::{json, Value as Json};

pub const SIG_ORDER: &str = "order-swap-leaves-documented-stream-identical";

fn keys(path: &str, tree: &Tree, cj: &dyn Fn() -> Json) -> Result<[u8; 8], crate::runner::Fail> {
    let mut holder = StaticHolder::new();
    let st = holder.build(tree);
    let owned = schematree::to_owned_expected(tree);
    let k_const = no_panic(|| verif_hash_static(path, st)).map_err(|p| fail("key", format!("compile-time hasher panicked: {}", p), cj()))?;
    let k_owned = no_panic(|| Key::for_owned_schema_path(path, &owned).to_bytes()).map_err(|p| fail("key", format!("run-time hasher panicked: {}", p), cj()))?;
    let k_ref = schematree::ref_key(path, tree);
    // "the owned schema" of a static one is its conversion: the run-time key of that must be the compile-time key too
    let converted = no_panic(|| postcard_schema::schema::owned::OwnedDataModelType::from(st)).map_err(|p| fail("key", format!("conversion panicked: {}", p), cj()))?;
    let k_conv = no_panic(|| Key::for_owned_schema_path(path, &converted).to_bytes()).map_err(|p| fail("key", format!("run-time hasher panicked: {}", p), cj()))?;
    // ... and so is the conversion of a copy of the root that lives on this stack frame (same address for every case)
    {
        let local: postcard_schema::schema::DataModelType = *st;
        let conv2 = no_panic(|| postcard_schema::schema::owned::OwnedDataModelType::from(&local)).map_err(|p| fail("key", format!("conversion panicked: {}", p), cj()))?;
        let k2 = no_panic(|| Key::for_owned_schema_path(path, &conv2).to_bytes()).map_err(|p| fail("key", format!("run-time hasher panicked: {}", p), cj()))?;
        if k2 != k_const {
            return Err(fail(
                "key",
                format!("compile-time hasher gives {} but the run-time hasher on the owned conversion of a stack copy of the same schema gives {}", hex(&k_const), hex(&k2)),
                cj(),
            ));
        }
    }
    if k_const != k_conv {
        return Err(fail(
            "key",
            format!("compile-time hasher gives {} but the run-time hasher on the owned conversion of the same schema gives {}", hex(&k_const), hex(&k_conv)),
            cj(),
        ));
    }
    if k_const != k_owned {
        return Err(fail("key", format!("compile-time hasher gives {} but the run-time hasher gives {}", hex(&k_const), hex(&k_owned)), cj()));
    }
    if k_const != k_ref {
        return Err(fail(
            "key",
            format!("both hashers give {} but FNV-1a over path ++ documented tag stream is {}", hex(&k_const), hex(&k_ref)),
            cj(),
        ));
    }
    Ok(k_const)
}

pub fn check(path: &str, tree: &Tree, strict_order: bool, l: &mut Local) -> CaseResult {
    let cj = || json!({"path": path, "tree": tree});
    l.eval();
    let k0 = keys(path, tree, &cj)?;
    let mut s0 = vec![];
    schematree::ref_stream(tree, &mut s0);
    // path sensitivity
    for p2 in [format!("{}x", path), format!("/{}", path), path.chars().rev().collect::<String>()] {
        if p2 == path {
            continue;
        }
        let same_stream = {
            let mut a = path.as_bytes().to_vec();
            a.extend(&s0);
            let mut b = p2.as_bytes().to_vec();
            b.extend(&s0);
            a == b
        };
        l.eval();
        let k = keys(&p2, tree, &cj)?;
        if k == k0 && !same_stream {
            return Err(fail("key", format!("paths {:?} and {:?} give the same key", path, p2), cj()));
        }
    }
    // single-node mutations
    let muts = schematree::mutations(tree, 48);
    for (class, m) in muts {
        if m == *tree {
            continue;
        }
        let cjm = || json!({"path": path, "tree": tree, "mutated": m, "class": format!("{:?}", class)});
        l.eval();
        let km = keys(path, &m, &cjm)?;
        let mut sm = vec![];
        schematree::ref_stream(&m, &mut sm);
        match class {
            MutClass::TypeRename => {
                if km != k0 {
                    return Err(fail("key", "renaming a struct/enum type changed the key", cjm()));
                }
                l.class("type-rename-keeps-key");
            }
            _ => {
                if sm == s0 {
                    // the documented stream cannot tell the two schemas apart
                    if matches!(class, MutClass::FieldOrder | MutClass::VariantOrder) {
                        if strict_order {
                            return Err(fail(
                                "key",
                                format!("changing the order of fields/variants left the key unchanged ({}): the documented tag-and-name stream is byte-identical for both schemas", hex(&k0)),
                                cjm(),
                            )
                            .sig(SIG_ORDER));
                        }
                        l.excluded_known += 1;
                        continue;
                    }
                    return Err(fail("key", format!("{:?} mutation leaves the documented stream identical (harness expectation violated)", class), cjm()));
                }
                if km == k0 {
                    return Err(fail("key", format!("{:?} mutation changed the documented stream but not the key {}", class, hex(&k0)), cjm()));
                }
                l.class(match class {
                    MutClass::FieldRename => "field-rename-changes-key",
                    MutClass::VariantRename => "variant-rename-changes-key",
                    MutClass::FieldOrder => "field-order-changes-key",
                    MutClass::VariantOrder => "variant-order-changes-key",
                    _ => "kind-change-changes-key",
                });
                if tree.depth() >= 2 {
                    l.nontrivial(&(path, tree, &m));
                }
            }
        }
    }
    let named2 = {
        let mut n = false;
        tree.visit(&mut |t| match t {
            Tree::Struct(_, TData::Struct(fs)) if fs.len() >= 2 => n = true,
            Tree::Enum(_, vs) if vs.len() >= 2 => n = true,
            _ => {}
        });
        n
    };
    if named2 {
        l.nontrivial(&(path, tree));
    }
    l.sample(|| format!("path={:?} {:?} -> key {}", path, tree, hex(&k0)));
    Ok(())
}

pub fn replay(case: &Json, l: &mut Local) -> CaseResult {
    let tree: Tree = serde_json::from_value(case["tree"].clone()).map_err(|e| fail("key", format!("bad replay: {}", e), case.clone()))?;
    check(case["path"].as_str().unwrap_or(""), &tree, true, l)
}

fn arb_path() -> BoxedStrategy<String> {
    prop_oneof![
        1 => Just(String::new()),
        4 => "[a-z/_]{1,12}".prop_map(|s| s),
        1 => Just("топик/名前".to_string()),
        // separators at either end, doubled, alone; whitespace; NUL
        2 => ("[a-z]{0,6}", 0usize..8).prop_map(|(s, k)| match k {
            0 => format!("{}/", s),
            1 => format!("{}//", s),
            2 => format!("/{}", s),
            3 => "/".to_string(),
            4 => format!("{} ", s),
            5 => format!(" {}", s),
            6 => format!("{}\0", s),
            _ => format!("{}/{}/", s, s),
        }),
        1 => (any::<u8>()).prop_map(|c| ((b'a' + c % 26) as char).to_string().repeat(1024)),
    ]
    .boxed()
}

pub fn run(ctx: &Ctx) {
    ctx.set_rule(
        "cases: random schema trees (all kinds, name classes incl. letters equal to tag bytes) x paths {empty, ASCII, multi-byte, \
         1 kB} x every single-node mutation (kind change, field/variant rename, adjacent field/variant swap, type rename) and path \
         edits; corpus types via Key::for_path::<T>. oracle: compile-time hasher (run through the hook on leaked trees) == run-time \
         hasher == FNV-1a-64 over path ++ the harness's own emitter of the documented 34-tag stream (little-endian); type renames \
         keep the key; any mutation that changes the documented stream changes the key. non-trivial = tree with a struct/enum of \
         >= 2 named members, or mutation below the root; distinct = hash(path, tree[, mutant])",
    );
    ctx.assume("a 2^-64 FNV collision between two different streams would be reported as a violation (not observed)");
    ctx.assume("order swaps that leave the documented stream byte-identical are the known finding; they are excluded by construction and counted under excluded_known");
    let n = ctx.tier.pick(120_000, 1_500_000);
    ctx.par_proptest(
        "trees-x-mutations",
        n,
        || (arb_path(), schematree::arb_tree(TreeCfg { depth: 4, width: 4, exotic: true })),
        |(p, t), l| check(p, t, false, l),
    );
    let n = ctx.tier.pick(10_000, 100_000);
    ctx.par_proptest("deep-and-wide", n, || (arb_path(), schematree::arb_deep_or_wide(220, 150)), |(p, t), l| check(p, t, false, l));
    let n = ctx.tier.pick(5_000, 50_000);
    ctx.par_proptest(
        "array-then-new-types",
        n,
        || (arb_path(), schematree::arb_array_then_types(TreeCfg { depth: 3, width: 4, exotic: true })),
        |(p, t), l| check(p, t, false, l),
    );
    super::corpus_checks::c16(ctx);
}
