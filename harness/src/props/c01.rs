//! C01 — encode/decode round-trip is the identity, for every entry-point pairing.

use super::common::*;
use crate::dynshape::{render, Shape, Value};
use crate::gen::{self, ShapeCfg, ValCfg};
use crate::runner::{fail, CaseResult, Ctx, Local};
use proptest::prelude::*;
use serde_json::{json, Value as Json};

const TAILS: &[&[u8]] = &[&[], &[0x5A], &[0x00, 0xFF, 0x80, 0x01, 0x7F, 0x80, 0x80]];

/// The oracle: all encoders agree; every decoder returns the value and consumes exactly the
/// encoding, leaving the tail untouched.
pub fn check(shape: &Shape, value: &Value, tail: &[u8], full: bool, l: &mut Local) -> CaseResult {
    let cj = || {
        let mut c = case_json(shape, value);
        c["tail"] = json!(crate::runner::hex(tail));
        c
    };
    let t = crate::dynshape::Typed(shape, value);
    let bytes = match crate::runner::no_panic(|| postcard::to_allocvec(&t)) {
        Ok(Ok(b)) => b,
        Ok(Err(e)) => return Err(fail("roundtrip", format!("to_allocvec failed: {:?}", e), cj())),
        Err(p) => return Err(fail("roundtrip", format!("to_allocvec panicked: {}", p), cj())),
    };
    l.eval();
    if full {
        let encs = encode_all(shape, value, bytes.len())
            .map_err(|p| fail("roundtrip", format!("encoder panicked: {}", p), cj()))?;
        for (name, r) in &encs {
            match r {
                Ok(b) if *b == bytes => {}
                Ok(b) => {
                    return Err(fail(
                        "roundtrip",
                        format!("{} produced {} but to_allocvec produced {}", name, crate::runner::hex(b), crate::runner::hex(&bytes)),
                        cj(),
                    ))
                }
                Err(e) => return Err(fail("roundtrip", format!("{} failed: {:?}", name, e), cj())),
            }
        }
    }
    let mut input = bytes.clone();
    input.extend_from_slice(tail);
    let decs = decode_all(shape, &input).map_err(|p| fail("roundtrip", format!("decoder panicked: {}", p), cj()))?;
    for d in &decs {
        if !full && (d.name == "from_io" || d.name == "from_eio") {
            // still executed; results are checked below all the same
        }
        match &d.result {
            Ok(v) if v == value => {}
            Ok(v) => {
                return Err(fail(
                    "roundtrip",
                    format!("{} returned {:?}, encoded value was {:?} (bytes {})", d.name, v, value, crate::runner::hex(&bytes)),
                    cj(),
                ))
            }
            Err(e) => {
                if d.log.skipped_zero_width {
                    l.skipped += 1;
                    continue;
                }
                return Err(fail(
                    "roundtrip",
                    format!("{} failed with {:?} on its own encoding {}", d.name, e, crate::runner::hex(&bytes)),
                    cj(),
                ));
            }
        }
        if let Some(c) = d.consumed {
            if c != bytes.len() {
                return Err(fail(
                    "roundtrip",
                    format!("{} consumed {} bytes, encoding has {}", d.name, c, bytes.len()),
                    cj(),
                ));
            }
        }
        if !d.remainder_ok {
            return Err(fail("roundtrip", format!("{} remainder is not the tail of the input", d.name), cj()));
        }
    }
    if shape.is_composite() || bytes.len() >= 2 {
        l.nontrivial(&(shape, &bytes));
        l.class("nontrivial");
    }
    l.class(shape.kind_name());
    l.sample(|| format!("{}  =>  {}", render(shape, value), crate::runner::hex(&bytes[..bytes.len().min(48)])));
    Ok(())
}

/// Text written through `collect_str` (a Display impl emitting pieces through write_str / write_char / nested
/// formatting) decodes as the String that Display would have produced.
pub fn check_display(pieces: &[String], wrap: u8, l: &mut Local) -> CaseResult {
    let text: String = pieces.concat();
    let (enc_shape, enc_value, dec_shape, dec_value) = match wrap % 4 {
        0 => (Shape::DisplayStr, Value::Pieces(pieces.to_vec()), Shape::String, Value::Str(text.clone())),
        1 => (
            Shape::Tuple(vec![Shape::U8, Shape::DisplayStr, Shape::U16]),
            Value::List(vec![Value::U(7), Value::Pieces(pieces.to_vec()), Value::U(300)]),
            Shape::Tuple(vec![Shape::U8, Shape::Str, Shape::U16]),
            Value::List(vec![Value::U(7), Value::Str(text.clone()), Value::U(300)]),
        ),
        2 => (
            Shape::Seq(Box::new(Shape::DisplayStr)),
            Value::List(vec![Value::Pieces(pieces.to_vec()), Value::Pieces(vec![]), Value::Pieces(pieces.to_vec())]),
            Shape::Seq(Box::new(Shape::String)),
            Value::List(vec![Value::Str(text.clone()), Value::Str(String::new()), Value::Str(text.clone())]),
        ),
        _ => (
            Shape::Option(Box::new(Shape::DisplayStr)),
            Value::Some(Box::new(Value::Pieces(pieces.to_vec()))),
            Shape::Option(Box::new(Shape::String)),
            Value::Some(Box::new(Value::Str(text.clone()))),
        ),
    };
    let cj = || json!({"display_pieces": pieces, "wrap": wrap});
    l.eval();
    let bytes = crate::runner::no_panic(|| postcard::to_allocvec(&crate::dynshape::Typed(&enc_shape, &enc_value)))
        .map_err(|p| fail("roundtrip", format!("to_allocvec panicked: {}", p), cj()))?
        .map_err(|e| fail("roundtrip", format!("to_allocvec of a Display value failed: {:?}", e), cj()))?;
    let decs = decode_all(&dec_shape, &bytes).map_err(|p| fail("roundtrip", format!("decoder panicked: {}", p), cj()))?;
    for d in &decs {
        match &d.result {
            Ok(v) if *v == dec_value => {}
            other => {
                return Err(fail(
                    "roundtrip",
                    format!("{}: text {:?} written through collect_str decodes as {:?} (bytes {})", d.name, text, other, crate::runner::hex(&bytes)),
                    cj(),
                ))
            }
        }
    }
    if !text.is_ascii() {
        l.nontrivial(&(&bytes, wrap % 4, "display"));
    }
    l.class("display-as-text");
    Ok(())
}

/// Two messages decoded one after the other from one reader, the second with the scratch the first call handed back:
/// what the first value borrows is still what was encoded (the values of both calls are alive together).
pub fn check_reader_chain(shape: &Shape, v1: &Value, v2: &Value, slack: usize, l: &mut Local) -> CaseResult {
    use crate::dynshape::{with_shape, Dyn};
    let (Ok(e1), Ok(e2)) = (crate::refcodec::ref_encode(shape, v1), crate::refcodec::ref_encode(shape, v2)) else { return Ok(()) };
    let cj = || json!({"reader_chain": true, "shape": shape, "value": v1, "value2": v2, "slack": slack});
    let Ok(d1) = crate::refcodec::ref_decode(shape, &e1.bytes) else { return Ok(()) };
    let mut stream = e1.bytes.clone();
    stream.extend_from_slice(&e2.bytes);
    let need = scratch_need(shape, v1) + scratch_need(shape, v2);
    let mut scratch = vec![0xCDu8; need + slack];
    l.eval();
    let rd: &[u8] = &stream;
    let (r1, log1) = with_shape(shape, || crate::runner::no_panic(|| postcard::from_io::<Dyn, _>((rd, &mut scratch[..]))));
    let r1 = r1.map_err(|p| fail("roundtrip", format!("from_io panicked: {}", p), cj()))?;
    if log1.skipped_zero_width {
        return Ok(());
    }
    let (a, (rd2, rest)) = match r1 {
        Ok(x) => x,
        Err(e) => return Err(fail("roundtrip", format!("from_io failed with {:?} on the first of two messages", e), cj())),
    };
    let (r2, log2) = with_shape(shape, || crate::runner::no_panic(|| postcard::from_io::<Dyn, _>((rd2, rest))));
    let r2 = r2.map_err(|p| fail("roundtrip", format!("from_io panicked: {}", p), cj()))?;
    if log2.skipped_zero_width {
        return Ok(());
    }
    let b = match r2 {
        Ok((b, _)) => b,
        Err(e) => return Err(fail("roundtrip", format!("from_io failed with {:?} on the second message (scratch: what both messages route through it + {})", e, slack), cj())),
    };
    if a.0 != *v1 || b.0 != *v2 {
        return Err(fail("roundtrip", format!("two messages read from one stream came back as {:?} and {:?}", a.0, b.0), cj()));
    }
    // the bytes the first value borrows, looked at after the second call
    if log1.borrows.len() == d1.payload_spans.len() {
        for ((p, n), (off, m)) in log1.borrows.iter().zip(&d1.payload_spans) {
            if n != m {
                continue;
            }
            let now: &[u8] = if *n == 0 { &[] } else { unsafe { std::slice::from_raw_parts(*p as *const u8, *n) } };
            if now != &e1.bytes[*off..*off + *m] {
                return Err(fail(
                    "roundtrip",
                    format!("after decoding the next message with the returned scratch, a string/bytes field borrowed by the first value reads {} instead of {}", crate::runner::hex(now), crate::runner::hex(&e1.bytes[*off..*off + *m])),
                    cj(),
                ));
            }
        }
    }
    if !log1.borrows.is_empty() {
        l.nontrivial(&(&stream, slack, "chain"));
    }
    l.class("reader-chain");
    Ok(())
}

pub fn replay(case: &Json, l: &mut Local) -> CaseResult {
    if case.get("reader_chain").is_some() {
        let v2: Value = serde_json::from_value(case["value2"].clone()).map_err(|e| fail("roundtrip", format!("bad replay: {}", e), case.clone()))?;
        return check_reader_chain(&shape_of(case), &value_of(case), &v2, case["slack"].as_u64().unwrap_or(0) as usize, l);
    }
    if let Some(p) = case.get("display_pieces") {
        let pieces: Vec<String> = serde_json::from_value(p.clone()).unwrap_or_default();
        return check_display(&pieces, case["wrap"].as_u64().unwrap_or(0) as u8, l);
    }
    if case.get("probe").is_some() {
        return check_human_readable_flag_c01(l);
    }
    if let Some(r) = super::corpus_checks::replay_corpus(case, l) {
        return r;
    }
    let shape = shape_of(case);
    let value = value_of(case);
    let tail = case.get("tail").and_then(|t| t.as_str()).map(crate::runner::unhex).unwrap_or_default();
    check(&shape, &value, &tail, true, l)
}

fn scalar_case(i: u64) -> (Shape, Value) {
    // 2 bools, 256 u8, 256 i8, 65536 u16, 65536 i16, then all chars
    let mut i = i;
    if i < 2 {
        return (Shape::Bool, Value::Bool(i == 1));
    }
    i -= 2;
    if i < 256 {
        return (Shape::U8, Value::U(i as u128));
    }
    i -= 256;
    if i < 256 {
        return (Shape::I8, Value::I(i as i128 - 128));
    }
    i -= 256;
    if i < 65536 {
        return (Shape::U16, Value::U(i as u128));
    }
    i -= 65536;
    if i < 65536 {
        return (Shape::I16, Value::I(i as i128 - 32768));
    }
    i -= 65536;
    // chars: 0..0xD800 then 0xE000..0x110000
    let cp = if i < 0xD800 { i } else { i + 0x800 };
    (Shape::Char, Value::Char(char::from_u32(cp as u32).unwrap()))
}

const N_SCALARS: u64 = 2 + 256 + 256 + 65536 + 65536 + (0x110000 - 0x800);

pub fn run(ctx: &Ctx) {
    ctx.set_rule(
        "cases: exhaustive bool/u8/i8/u16/i16/char; proptest (shape,value) trees over all 29 serde kinds \
         (+usize/isize), deep chains, wide aggregates; each encoded by 9 encoder entry points and decoded \
         (with 3 different tails) by from_bytes/take_from_bytes/from_io/from_eio; text emitted through collect_str by a Display impl (write_str / write_char / nested formatting; ASCII, Latin-1, multi-byte) decoded as String. non-trivial = composite shape \
         or encoding >= 2 bytes; distinct = hash(shape, bytes) (enumerated scalars are distinct by construction)",
    );
    ctx.serial("human-readable-flag", check_human_readable_flag_c01);
    ctx.assume("value equality is structural on the harness Value (floats by bit pattern)");
    ctx.assume("serde adapters in harness/src/dynshape.rs are trusted (self-checked against the reference encoder)");

    // (a) exhaustive scalars
    ctx.par_range("exhaustive-scalars", N_SCALARS, |i, l| {
        let (s, v) = scalar_case(i);
        let tail = TAILS[(i % 3) as usize];
        let before = l.nontrivial.len();
        let r = check(&s, &v, tail, i % 64 == 0, l);
        // enumerated points are distinct by construction; avoid hashing a million entries
        if l.nontrivial.len() > before {
            l.nontrivial.clear();
            l.nontrivial_enum(1);
        }
        r
    });
    ctx.exhausted("all bool, u8, i8, u16, i16, char values");

    // (b) random trees
    let n = ctx.tier.pick(400_000, 6_000_000);
    ctx.par_proptest(
        "random-trees",
        n,
        || (gen::arb_typed(ShapeCfg::default(), ValCfg::default()), 0..3usize),
        |((s, v), t), l| check(s, v, TAILS[*t], true, l),
    );

    // (b2) Display -> collect_str -> String
    ctx.par_proptest(
        "display-as-text",
        n / 4,
        || {
            let ch = prop_oneof![
                4 => (0x20u32..0x7F).prop_map(|c| char::from_u32(c).unwrap()),
                3 => (0x80u32..0x100).prop_map(|c| char::from_u32(c).unwrap()),
                2 => (0x100u32..0x800).prop_map(|c| char::from_u32(c).unwrap()),
                1 => Just('\0'),
                2 => gen::arb_char(),
            ];
            (proptest::collection::vec(proptest::collection::vec(ch, 0..5).prop_map(|v| v.into_iter().collect::<String>()), 0..7), any::<u8>())
        },
        |(pieces, wrap), l| check_display(pieces, *wrap, l),
    );

    // (b2') many elements, little data per element
    ctx.par_proptest("long-sparse-collections", ctx.tier.pick(2_000, 30_000), gen::arb_long_sparse, |(s, v), l| {
        l.class("long-sparse-collection");
        check(s, v, TAILS[1], false, l)
    });
    // (b2'') sequences of zero-sized elements with counts around 2^24 (no memory behind them, only the count is encoded)
    ctx.serial("huge-zero-sized-sequences", |l| {
        for n in [(1usize << 24) - 1, 1 << 24, (1 << 24) + 1, (1 << 25) + 3] {
            macro_rules! zs {
                ($t:ty, $e:expr, $name:literal) => {{
                    l.eval();
                    let v: Vec<$t> = vec![$e; n];
                    let cj = json!({"huge_zero_sized": $name, "n": n});
                    let bytes = postcard::to_allocvec(&v).map_err(|e| fail("roundtrip", format!("to_allocvec of Vec<{}> with {} elements failed: {:?}", $name, n, e), cj.clone()))?;
                    let back = crate::runner::no_panic(|| postcard::from_bytes::<Vec<$t>>(&bytes)).map_err(|p| fail("roundtrip", format!("from_bytes panicked: {}", p), cj.clone()))?;
                    match back {
                        Ok(b) if b.len() == n => {}
                        other => return Err(fail("roundtrip", format!("Vec<{}> with {} elements ({} bytes) came back as {:?}", $name, n, bytes.len(), other.map(|b| b.len())), cj)),
                    }
                    let mut scratch = [0u8; 8];
                    let via_io = crate::runner::no_panic(|| postcard::from_io::<Vec<$t>, _>((&bytes[..], &mut scratch[..])).map(|(b, _)| b.len()))
                        .map_err(|p| fail("roundtrip", format!("from_io panicked: {}", p), json!({"huge_zero_sized": $name, "n": n})))?;
                    if via_io != Ok(n) {
                        return Err(fail("roundtrip", format!("from_io of Vec<{}> with {} elements gave {:?}", $name, n, via_io), json!({"huge_zero_sized": $name, "n": n})));
                    }
                    l.nontrivial(&($name, n));
                }};
            }
            zs!((), (), "()");
            zs!(std::marker::PhantomData<u8>, std::marker::PhantomData, "PhantomData<u8>");
            zs!([u8; 0], [], "[u8; 0]");
        }
        Ok(())
    });
    // (b3) two messages through one reader and its returned scratch
    ctx.par_proptest(
        "reader-chain-borrowed",
        n / 8,
        || {
            gen::arb_shape(ShapeCfg { depth: 2, ..ShapeCfg::default() }).prop_flat_map(|s| {
                let v = gen::arb_value(&s, ValCfg { max_len: 24, max_seq: 3 });
                (Just(s), v.clone(), v, 0usize..3)
            })
        },
        |(s, v1, v2, slack), l| check_reader_chain(s, v1, v2, *slack, l),
    );
    // (c) deep chains and wide aggregates
    let n = ctx.tier.pick(40_000, 400_000);
    ctx.par_proptest(
        "deep-chains",
        n,
        || {
            gen::arb_deep_chain(200).prop_flat_map(|s| {
                let vs = gen::arb_value(&s, ValCfg { max_len: 40, max_seq: 2 });
                (Just(s), vs)
            })
        },
        |(s, v), l| check(s, v, TAILS[1], false, l),
    );
    ctx.par_proptest(
        "wide-aggregates",
        n,
        || {
            gen::arb_wide(64).prop_flat_map(|s| {
                let vs = gen::arb_value(&s, ValCfg { max_len: 40, max_seq: 2 });
                (Just(s), vs)
            })
        },
        |(s, v), l| check(s, v, TAILS[2], true, l),
    );

    // (c2) long payloads: counts whose varint needs 3 and 4 bytes
    {
        let lens: Vec<usize> = vec![509, 510, 511, 1021, 1022, 1023, 1533, 1534, 2045, 2046, 4094, 8190, 16381, 16382, 16383, 16384, 16385, 20000, 32767, 32768, 40000, 49151, 49152, 65535, 65536, 81920, 2097151, 2097152, 2097153, 3000000, 4194303, 4194304];
        let kinds = 5u64;
        let lens_ref = &lens;
        ctx.par_range("long-payloads", lens.len() as u64 * kinds, move |i, l| {
            let n = lens_ref[(i / kinds) as usize];
            let (s, v) = match i % kinds {
                0 => (Shape::String, Value::Str("x".repeat(n))),
                1 => (Shape::Bytes, Value::Bytes((0..n).map(|k| (k % 251) as u8).collect())),
                2 => (Shape::Seq(Box::new(Shape::U8)), Value::List((0..n.min(70000)).map(|k| Value::U((k % 256) as u128)).collect())),
                3 => (Shape::Seq(Box::new(Shape::Bool)), Value::List((0..n.min(70000)).map(|k| Value::Bool(k % 3 == 0)).collect())),
                _ => (
                    Shape::Map(Box::new(Shape::U8), Box::new(Shape::Unit)),
                    Value::Map((0..n.min(70000)).map(|k| (Value::U((k % 256) as u128), Value::Unit)).collect()),
                ),
            };
            check(&s, &v, TAILS[(i % 3) as usize], true, l)
        });
    }

    // (d) all f32 bit patterns (thorough)
    if ctx.tier == crate::runner::Tier::Thorough {
        ctx.par_range("exhaustive-f32", 1u64 << 32, |i, l| {
            let v = Value::F32(i as u32);
            let t = crate::dynshape::Typed(&Shape::F32, &v);
            l.eval();
            let bytes = postcard::to_allocvec(&t).map_err(|e| fail("roundtrip", format!("{:?}", e), case_json(&Shape::F32, &v)))?;
            let (back, rem) = postcard::take_from_bytes::<f32>(&bytes)
                .map_err(|e| fail("roundtrip", format!("{:?}", e), case_json(&Shape::F32, &v)))?;
            if back.to_bits() != i as u32 || !rem.is_empty() {
                return Err(fail("roundtrip", format!("f32 bits {:#x} came back as {:#x}", i, back.to_bits()), case_json(&Shape::F32, &v)));
            }
            l.nontrivial_enum(1);
            Ok(())
        });
        ctx.exhausted("all 2^32 f32 bit patterns");
    }

    super::corpus_checks::c01(ctx);
}
