//! C20 — stacked flavours compose as byte-stream transformers.

use super::c05::{reference_output, Framing};
use super::common::*;
use crate::dynshape::{render, with_shape, Dyn, Shape, Typed, Value};
use crate::gen::{self, ShapeCfg, ValCfg};
use crate::guard::{Flush, GuardArena};
use crate::refcodec::ref_encode;
use crate::runner::{fail, hex, no_panic, CaseResult, Ctx, Local};
use crate::{refcobs, refcrc};
use postcard::ser_flavors::{crc::CrcModifier, AllocVec, Cobs, Flavor, HVec, Slice};
use postcard::serialize_with_flavor;
use proptest::prelude::*;
use serde_json::{json, Value as Json};
use std::cell::RefCell;
use std::rc::Rc;

static CRC8: crc::Crc<u8> = crc::Crc::<u8>::new(&crc::CRC_8_SMBUS);
static CRC16: crc::Crc<u16> = crc::Crc::<u16>::new(&crc::CRC_16_IBM_SDLC);
static CRC32: crc::Crc<u32> = crc::Crc::<u32>::new(&crc::CRC_32_ISCSI);
static CRC64: crc::Crc<u64> = crc::Crc::<u64>::new(&crc::CRC_64_XZ);
static CRC128: crc::Crc<u128> = crc::Crc::<u128>::new(&crc::CRC_82_DARC);

/// stack ids: 0 bare, 1 Cobs, 2..=6 Crc(w), 7..=11 Crc(w) over Cobs
pub const N_STACKS: usize = 12;
pub const N_STORAGES: usize = 5;

fn crc_framing(i: usize) -> Framing {
    [Framing::Crc8, Framing::Crc16, Framing::Crc32, Framing::Crc64, Framing::Crc128][i]
}

/// Reference: apply the modifiers' transformations to the plain encoding in stack order.
pub fn reference_stack(plain: &[u8], stack: usize) -> Vec<u8> {
    match stack {
        0 => plain.to_vec(),
        1 => refcobs::frame(plain),
        2..=6 => reference_output(plain, crc_framing(stack - 2)),
        _ => refcobs::frame(&reference_output(plain, crc_framing(stack - 7))),
    }
}

macro_rules! run_stacks {
    ($t:expr, $stack:expr, $mk:expr, $conv:expr) => {{
        let t = $t;
        match $stack {
            0 => serialize_with_flavor(t, $mk).map($conv),
            1 => Cobs::try_new($mk).and_then(|f| serialize_with_flavor(t, f)).map($conv),
            2 => serialize_with_flavor(t, CrcModifier::new($mk, CRC8.digest())).map($conv),
            3 => serialize_with_flavor(t, CrcModifier::new($mk, CRC16.digest())).map($conv),
            4 => serialize_with_flavor(t, CrcModifier::new($mk, CRC32.digest())).map($conv),
            5 => serialize_with_flavor(t, CrcModifier::new($mk, CRC64.digest())).map($conv),
            6 => serialize_with_flavor(t, CrcModifier::new($mk, CRC128.digest())).map($conv),
            7 => Cobs::try_new($mk).and_then(|f| serialize_with_flavor(t, CrcModifier::new(f, CRC8.digest()))).map($conv),
            8 => Cobs::try_new($mk).and_then(|f| serialize_with_flavor(t, CrcModifier::new(f, CRC16.digest()))).map($conv),
            9 => Cobs::try_new($mk).and_then(|f| serialize_with_flavor(t, CrcModifier::new(f, CRC32.digest()))).map($conv),
            10 => Cobs::try_new($mk).and_then(|f| serialize_with_flavor(t, CrcModifier::new(f, CRC64.digest()))).map($conv),
            11 => Cobs::try_new($mk).and_then(|f| serialize_with_flavor(t, CrcModifier::new(f, CRC128.digest()))).map($conv),
            _ => unreachable!(),
        }
    }};
}

/// the stacks that do not need indexable storage (COBS patches its code bytes in place, so it cannot sit on a writer)
macro_rules! run_stacks_streaming {
    ($t:expr, $stack:expr, $mk:expr, $conv:expr) => {{
        let t = $t;
        match $stack {
            0 => serialize_with_flavor(t, $mk).map($conv),
            2 => serialize_with_flavor(t, CrcModifier::new($mk, CRC8.digest())).map($conv),
            3 => serialize_with_flavor(t, CrcModifier::new($mk, CRC16.digest())).map($conv),
            4 => serialize_with_flavor(t, CrcModifier::new($mk, CRC32.digest())).map($conv),
            5 => serialize_with_flavor(t, CrcModifier::new($mk, CRC64.digest())).map($conv),
            6 => serialize_with_flavor(t, CrcModifier::new($mk, CRC128.digest())).map($conv),
            _ => unreachable!(),
        }
    }};
}

pub fn streaming_stack(stack: usize) -> bool {
    stack == 0 || (2..=6).contains(&stack)
}

thread_local! {
    static ARENA: RefCell<GuardArena> = RefCell::new(GuardArena::new(1 << 16));
}

fn run_stack(t: &Typed, stack: usize, storage: usize, exact_len: usize, flush: Flush) -> postcard::Result<Vec<u8>> {
    match storage {
        0 => ARENA.with(|a| {
            let mut a = a.borrow_mut();
            // exactly as large as the output: any overshoot hits the guard page
            let buf = a.slice(exact_len, flush);
            buf.fill(0xEE);
            run_stacks!(t, stack, Slice::new(buf), |s: &mut [u8]| s.to_vec())
        }),
        1 => run_stacks!(t, stack, HVec::<4096>::default(), |v: heapless07::Vec<u8, 4096>| v.to_vec()),
        2 => run_stacks!(t, stack, AllocVec::new(), |v: Vec<u8>| v),
        // a std::io writer that takes 1-5 bytes per call and reports Interrupted now and then
        3 => run_stacks_streaming!(
            t,
            stack,
            postcard::ser_flavors::io::WriteFlavor::new(crate::iodoubles::ChunkWriter::new(
                crate::iodoubles::Schedule { chunks: vec![1 + exact_len % 4, 1, 5], interrupt_every: if exact_len % 2 == 0 { 0 } else { 4 } },
                crate::iodoubles::Fault::None,
                false
            )),
            |w: crate::iodoubles::ChunkWriter| w.accepted
        ),
        // a byte slice used as std::io writer, of exactly the output length
        _ => {
            let mut sink = vec![0xEEu8; exact_len];
            let left = {
                let r = run_stacks_streaming!(t, stack, postcard::ser_flavors::io::WriteFlavor::new(&mut sink[..]), |rest: &mut [u8]| rest.len());
                r?
            };
            sink.truncate(exact_len - left);
            Ok(sink)
        }
    }
}

fn undo(shape: &Shape, out: &[u8], stack: usize) -> Result<Option<Value>, String> {
    // undo the layers in reverse order with the public decoders
    let inner: Vec<u8> = match stack {
        1 | 7..=11 => {
            let mut copy = out.to_vec();
            let n = cobs_decode_public(&mut copy)?;
            copy[..n].to_vec()
        }
        _ => out.to_vec(),
    };
    let crc_idx = match stack {
        2..=6 => Some(stack - 2),
        7..=11 => Some(stack - 7),
        _ => None,
    };
    let (r, log) = with_shape(shape, || {
        no_panic(|| -> postcard::Result<(Dyn, usize)> {
            use postcard::de_flavors::crc as c;
            Ok(match crc_idx {
                None => postcard::take_from_bytes::<Dyn>(&inner).map(|(d, r)| (d, r.len()))?,
                Some(0) => c::take_from_bytes_u8::<Dyn>(&inner, CRC8.digest()).map(|(d, r)| (d, r.len()))?,
                Some(1) => c::take_from_bytes_u16::<Dyn>(&inner, CRC16.digest()).map(|(d, r)| (d, r.len()))?,
                Some(2) => c::take_from_bytes_u32::<Dyn>(&inner, CRC32.digest()).map(|(d, r)| (d, r.len()))?,
                Some(3) => c::take_from_bytes_u64::<Dyn>(&inner, CRC64.digest()).map(|(d, r)| (d, r.len()))?,
                _ => c::take_from_bytes_u128::<Dyn>(&inner, CRC128.digest()).map(|(d, r)| (d, r.len()))?,
            })
        })
    });
    if log.skipped_zero_width {
        return Ok(None);
    }
    match r? {
        Ok((d, 0)) => Ok(Some(d.0)),
        Ok((_, n)) => Err(format!("{} bytes left over after undoing the layers", n)),
        Err(e) => Err(format!("undoing the layers failed: {:?}", e)),
    }
}

/// COBS-decode through the public postcard API only (a Tuple(u8^n)-free way: decode as raw bytes
/// by asking for unit and looking at what from_bytes_cobs leaves is not possible), so use the
/// reference decoder here and cross-check it against from_bytes_cobs in C06/C07.
fn cobs_decode_public(buf: &mut [u8]) -> Result<usize, String> {
    let f = refcobs::decode_first_frame(buf);
    match f.payload {
        Some(p) if f.frame_end == buf.len() => {
            buf[..p.len()].copy_from_slice(&p);
            Ok(p.len())
        }
        Some(_) => Err("output holds more than one frame".into()),
        None => Err("output is not well-formed COBS".into()),
    }
}

pub fn check_stacks(shape: &Shape, value: &Value, l: &mut Local) -> CaseResult {
    let Ok(e) = ref_encode(shape, value) else { return Ok(()) };
    let plain = &e.bytes;
    let t = Typed(shape, value);
    for stack in 0..N_STACKS {
        let want = reference_stack(plain, stack);
        if want.len() > 4096 {
            continue;
        }
        for storage in 0..N_STORAGES {
            if storage >= 3 && !streaming_stack(stack) {
                continue;
            }
            let cj = || {
                let mut j = case_json(shape, value);
                j["stack"] = json!(stack);
                j["storage"] = json!(storage);
                j
            };
            l.eval();
            let flush = if (stack + storage) % 2 == 0 { Flush::End } else { Flush::Start };
            let r = no_panic(|| run_stack(&t, stack, storage, want.len(), flush)).map_err(|p| fail("stack", format!("stack {} storage {} panicked: {}", stack, storage, p), cj()))?;
            match r {
                Ok(b) if b == want => {}
                other => {
                    return Err(fail(
                        "stack",
                        format!("stack {} over storage {}: {:?}; composing the reference transforms gives {}", stack, storage, other.map(|b| hex(&b)), hex(&want)),
                        cj(),
                    ))
                }
            }
            // a writer with room for one byte less than the output: the stack reports an error (never a truncated success)
            if storage == 4 && !want.is_empty() {
                let mut sink = vec![0xEEu8; want.len() - 1];
                let r = no_panic(|| run_stacks_streaming!(&t, stack, postcard::ser_flavors::io::WriteFlavor::new(&mut sink[..]), |rest: &mut [u8]| rest.len()))
                    .map_err(|p| fail("stack", format!("stack {} over a too-small io sink panicked: {}", stack, p), cj()))?;
                if r.is_ok() {
                    return Err(fail("stack", format!("stack {} over an io sink with room for {} of {} bytes reported success", stack, want.len() - 1, want.len()), cj()));
                }
            }
            if storage == 2 && !shape.encoder_only() {
                match undo(shape, &want, stack) {
                    Ok(Some(v)) if v == *value => {}
                    Ok(None) => l.skipped += 1,
                    Ok(Some(v)) => return Err(fail("stack", format!("undoing stack {} gave {:?}", stack, v), cj())),
                    Err(m) => return Err(fail("stack", format!("stack {}: {}", stack, m), cj())),
                }
            }
            if stack >= 7 || ((stack == 1) && (plain.contains(&0) || plain.len() >= 254)) {
                l.nontrivial(&(stack, storage, &want));
            }
        }
    }
    // the convenience entry points are these very stacks over a given storage: they must agree too
    let helpers: Vec<(&str, usize, postcard::Result<Vec<u8>>)> = vec![
        ("to_allocvec_cobs", 1, postcard::to_allocvec_cobs(&t)),
        ("to_stdvec_cobs", 1, postcard::to_stdvec_cobs(&t)),
        ("to_vec_cobs<4096>", 1, postcard::to_vec_cobs::<_, 4096>(&t).map(|v| v.to_vec())),
        ("to_slice_cobs", 1, {
            let mut b = vec![0u8; reference_stack(plain, 1).len()];
            postcard::to_slice_cobs(&t, &mut b).map(|s| s.to_vec())
        }),
        ("to_allocvec_crc32", 4, postcard::to_allocvec_crc32(&t, CRC32.digest())),
        ("to_stdvec_crc32", 4, postcard::to_stdvec_crc32(&t, CRC32.digest())),
        ("to_vec_crc32<4096>", 4, postcard::to_vec_crc32::<_, 4096>(&t, CRC32.digest()).map(|v| v.to_vec())),
        ("to_slice_crc32", 4, {
            let mut b = vec![0u8; reference_stack(plain, 4).len()];
            postcard::to_slice_crc32(&t, &mut b, CRC32.digest()).map(|s| s.to_vec())
        }),
        ("to_allocvec (plain)", 0, postcard::to_allocvec(&t)),
    ];
    for (name, stack, got) in helpers {
        let want = reference_stack(plain, stack);
        if want.len() > 4096 {
            continue;
        }
        l.eval();
        if got.as_ref() != Ok(&want) {
            let mut j = case_json(shape, value);
            j["helper"] = json!(name);
            return Err(fail(
                "stack",
                format!("{} = {:?}; the same stack composed from reference transforms gives {}", name, got.map(|b| hex(&b)), hex(&want)),
                j,
            ));
        }
    }
    l.sample(|| format!("{} => plain {}", render(shape, value), hex(&plain[..plain.len().min(24)])));
    Ok(())
}

// ------------------------------------------------------------------ recording user flavours

#[derive(Debug, Clone, PartialEq)]
enum Ev {
    Push(u8),
    Extend(Vec<u8>),
    Finalize,
}

#[derive(Clone, Default)]
struct Log(Rc<RefCell<Vec<Ev>>>);

/// implements only try_push, inherits the default block write
struct PushOnly(Log);
impl Flavor for PushOnly {
    type Output = ();
    fn try_push(&mut self, b: u8) -> postcard::Result<()> {
        self.0 .0.borrow_mut().push(Ev::Push(b));
        Ok(())
    }
    fn finalize(self) -> postcard::Result<()> {
        self.0 .0.borrow_mut().push(Ev::Finalize);
        Ok(())
    }
}

/// overrides try_extend
struct Block(Log);
impl Flavor for Block {
    type Output = ();
    fn try_push(&mut self, b: u8) -> postcard::Result<()> {
        self.0 .0.borrow_mut().push(Ev::Push(b));
        Ok(())
    }
    fn try_extend(&mut self, d: &[u8]) -> postcard::Result<()> {
        self.0 .0.borrow_mut().push(Ev::Extend(d.to_vec()));
        Ok(())
    }
    fn finalize(self) -> postcard::Result<()> {
        self.0 .0.borrow_mut().push(Ev::Finalize);
        Ok(())
    }
}

pub fn check_user_flavours(shape: &Shape, value: &Value, l: &mut Local) -> CaseResult {
    let Ok(e) = ref_encode(shape, value) else { return Ok(()) };
    let plain = &e.bytes;
    let t = Typed(shape, value);
    let cj = || {
        let mut j = case_json(shape, value);
        j["user_flavour"] = json!(true);
        j
    };
    // variants: 0 PushOnly bare, 1 Block bare, 2 PushOnly under CRC32, 3 Block under CRC16
    for variant in 0..4 {
        let log = Log::default();
        l.eval();
        let r = no_panic(|| match variant {
            0 => serialize_with_flavor(&t, PushOnly(log.clone())),
            1 => serialize_with_flavor(&t, Block(log.clone())),
            2 => serialize_with_flavor(&t, CrcModifier::new(PushOnly(log.clone()), CRC32.digest())),
            _ => serialize_with_flavor(&t, CrcModifier::new(Block(log.clone()), CRC16.digest())),
        })
        .map_err(|p| fail("user-flavour", format!("panicked: {}", p), cj()))?;
        if r.is_err() {
            return Err(fail("user-flavour", format!("variant {} failed: {:?}", variant, r), cj()));
        }
        let evs = log.0.borrow();
        let want = match variant {
            0 | 1 => plain.clone(),
            2 => reference_output(plain, Framing::Crc32),
            _ => reference_output(plain, Framing::Crc16),
        };
        let mut got = vec![];
        for (i, ev) in evs.iter().enumerate() {
            match ev {
                Ev::Push(b) => got.push(*b),
                Ev::Extend(d) => got.extend_from_slice(d),
                Ev::Finalize => {
                    if i != evs.len() - 1 {
                        return Err(fail("user-flavour", format!("variant {}: finalize was not the last call", variant), cj()));
                    }
                }
            }
        }
        if evs.last() != Some(&Ev::Finalize) || evs.iter().filter(|e| **e == Ev::Finalize).count() != 1 {
            return Err(fail("user-flavour", format!("variant {}: finalize not called exactly once, last", variant), cj()));
        }
        if got != want {
            return Err(fail(
                "user-flavour",
                format!("variant {}: the flavour received {} but the plain encoding{} is {}", variant, hex(&got), if variant >= 2 { " + checksum" } else { "" }, hex(&want)),
                cj(),
            ));
        }
        if variant == 0 && evs.iter().any(|e| matches!(e, Ev::Extend(_))) {
            return Err(fail("user-flavour", "harness: PushOnly saw an extend", cj()));
        }
        if plain.len() >= 2 {
            l.nontrivial(&(variant, &want, 9u8));
        }
    }
    Ok(())
}

pub fn replay(case: &Json, l: &mut Local) -> CaseResult {
    let shape = shape_of(case);
    let value = value_of(case);
    if case.get("user_flavour").is_some() {
        check_user_flavours(&shape, &value, l)
    } else {
        check_stacks(&shape, &value, l)
    }
}

pub fn run(ctx: &Ctx) {
    let _ = refcrc::self_test;
    ctx.set_rule(
        "cases: generated (shape,value) and raw byte payloads x 12 stacks {S, Cobs<S>, Crc_w<S>, Crc_w<Cobs<S>> for w in \
         8/16/32/64/128} x 3 innermost storages {Slice sized exactly to the output and flush against a guard page, HVec<4096>, \
         AllocVec}; two recording user flavours (push-only / block-overriding), bare and under a CRC modifier. oracle: reference \
         transforms composed in stack order (cobs(plain ++ crc) ++ 00 for checksum-then-COBS), undoing in reverse recovers the \
         value, user flavours observe exactly the plain encoding (+crc) in order and finalize exactly once, last. non-trivial = \
         stack depth >= 2, or COBS over a payload with a zero byte or >= 254 bytes; distinct = hash(stack, storage, output)",
    );
    let n = ctx.tier.pick(60_000, 600_000);
    let scfg = ShapeCfg { encoder_only: true, depth: 3, ..ShapeCfg::default() };
    ctx.par_proptest("stacks-trees", n, || gen::arb_typed(scfg.clone(), ValCfg { max_len: 600, max_seq: 4 }), |(s, v), l| check_stacks(s, v, l));
    ctx.par_proptest(
        "stacks-raw",
        n,
        || gen::arb_bytes(1024).prop_map(|b| super::c06::raw(&b)),
        |(s, v), l| check_stacks(s, v, l),
    );
    // zero-free runs around 254 (COBS block boundary inside CRC-then-COBS)
    ctx.par_range("stacks-runs", 600, |n, l| {
        let (s, v) = super::c06::raw(&vec![0x11u8; n as usize]);
        check_stacks(&s, &v, l)
    });
    // payload lengths at the 2/3-byte and 3/4-byte boundaries of the length prefix
    {
        let lens: Vec<usize> = vec![127, 128, 16383, 16384, 16385, 32768, 40000];
        let lens = &lens;
        ctx.par_range("stacks-long-lengths", (lens.len() * 3) as u64, move |i, l| {
            let i = i as usize;
            let n = lens[i % lens.len()];
            let (s, v) = match i / lens.len() {
                0 => (Shape::ByteBuf, Value::Bytes((0..n).map(|k| (k % 251) as u8).collect())),
                1 => (Shape::Tuple(vec![Shape::U8, Shape::String]), Value::List(vec![Value::U(9), Value::Str("q".repeat(n))])),
                _ => (Shape::Seq(Box::new(Shape::Bool)), Value::List(vec![Value::Bool(true); n.min(70000)])),
            };
            l.class("long-length-prefix");
            check_stacks(&s, &v, l)?;
            check_user_flavours(&s, &v, l)
        });
    }
    ctx.par_proptest("user-flavours", n * 2, || gen::arb_typed(scfg.clone(), ValCfg { max_len: 300, max_seq: 4 }), |(s, v), l| check_user_flavours(s, v, l));
}
