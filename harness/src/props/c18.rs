//! C18 — the dynamic codec is total on untrusted bytes, JSON and schemas.

use crate::alloc::measure;
use crate::dynmap;
use crate::dynshape::Typed;
use crate::gen::{self, ValCfg};
use crate::mutate;
use crate::refcodec::ref_encode;
use crate::runner::{fail, hex, no_panic, panic_site, CaseResult, Ctx, Local};
use crate::schematree::{self, TData, Tree, TreeCfg};
use proptest::prelude::*;
use serde_json::{json, Value as Json};

pub const SIG_ZW_SEQ: &str = "dyn-seq-of-zero-width-elements-allocates-by-claimed-length";
pub const SIG_OPT_NULL: &str = "dyn-option-of-null-like-payload-coalesces-with-none";
pub const SIG_DUP_FIELDS: &str = "dyn-struct-with-duplicate-field-names-collapses-in-json-object";
pub const ALLOC_FACTOR: usize = 512;

fn dup_names(fs: &[(String, Tree)]) -> bool {
    (0..fs.len()).any(|i| (0..i).any(|j| fs[i].0 == fs[j].0))
}

fn has_dup_fields(t: &Tree) -> bool {
    let mut f = false;
    t.visit(&mut |n| match n {
        Tree::Struct(_, TData::Struct(fs)) if dup_names(fs) => f = true,
        Tree::Enum(_, vs) => {
            for (_, d) in vs {
                if let TData::Struct(fs) = d {
                    if dup_names(fs) {
                        f = true
                    }
                }
            }
        }
        _ => {}
    });
    f
}

/// JSON form produced by the dynamic decoder can be `null` for this schema
fn dyn_nullable(t: &Tree) -> bool {
    match t {
        Tree::Unit | Tree::Option(_) => true,
        Tree::Tuple(ts) => ts.len() == 1 && dyn_nullable(&ts[0]),
        Tree::Struct(_, d) => match d {
            TData::Unit => true,
            TData::Newtype(i) => dyn_nullable(i),
            TData::Tuple(ts) => ts.len() == 1 && dyn_nullable(&ts[0]),
            TData::Struct(_) => false,
        },
        _ => false,
    }
}

fn has_zw_seq(t: &Tree) -> bool {
    let mut f = false;
    t.visit(&mut |n| {
        if let Tree::Seq(e) = n {
            if dynmap::tree_zero_width(e) {
                f = true
            }
        }
    });
    f
}

fn has_opt_null(t: &Tree) -> bool {
    let mut f = false;
    t.visit(&mut |n| {
        if let Tree::Option(e) = n {
            if dyn_nullable(e) {
                f = true
            }
        }
    });
    f
}

/// Exclude the two known findings by construction (counted by the caller).
pub fn sanitize(t: &Tree, n_excl: &mut u64) -> Tree {
    sanitize_opts(t, n_excl, true)
}

/// `zw_seq`: also rewrite sequences of zero-width elements (only the bytes/allocation checks
/// need that; the JSON encode->decode->encode clause holds for them and stays covered)
pub fn sanitize_opts(t: &Tree, n_excl: &mut u64, zw_seq: bool) -> Tree {
    fn data(d: &TData, n: &mut u64, zw_seq: bool) -> TData {
        match d {
            TData::Unit => TData::Unit,
            TData::Newtype(i) => TData::Newtype(Box::new(sanitize_opts(i, n, zw_seq))),
            TData::Tuple(ts) => TData::Tuple(ts.iter().map(|t| sanitize_opts(t, n, zw_seq)).collect()),
            TData::Struct(fs) => {
                let mut out: Vec<(String, Tree)> = vec![];
                for (i, (k, t)) in fs.iter().enumerate() {
                    let mut name = k.clone();
                    if out.iter().any(|(o, _)| *o == name) {
                        *n += 1;
                        name = format!("{}#{}", k, i);
                    }
                    out.push((name, sanitize_opts(t, n, zw_seq)));
                }
                TData::Struct(out)
            }
        }
    }
    match t {
        Tree::Option(i) => {
            let i2 = sanitize_opts(i, n_excl, zw_seq);
            if dyn_nullable(&i2) {
                *n_excl += 1;
                Tree::Option(Box::new(Tree::Tuple(vec![i2, Tree::Bool])))
            } else {
                Tree::Option(Box::new(i2))
            }
        }
        Tree::Seq(i) => {
            let i2 = sanitize_opts(i, n_excl, zw_seq);
            if zw_seq && dynmap::tree_zero_width(&i2) {
                *n_excl += 1;
                Tree::Seq(Box::new(Tree::Tuple(vec![i2, Tree::U8])))
            } else {
                Tree::Seq(Box::new(i2))
            }
        }
        Tree::Tuple(ts) => Tree::Tuple(ts.iter().map(|t| sanitize_opts(t, n_excl, zw_seq)).collect()),
        Tree::Map(k, v) => Tree::Map(Box::new(sanitize_opts(k, n_excl, zw_seq)), Box::new(sanitize_opts(v, n_excl, zw_seq))),
        Tree::Struct(n, d) => Tree::Struct(n.clone(), data(d, n_excl, zw_seq)),
        Tree::Enum(n, vs) => Tree::Enum(n.clone(), vs.iter().map(|(k, d)| (k.clone(), data(d, n_excl, zw_seq))).collect()),
        other => other.clone(),
    }
}

pub fn check_bytes(tree: &Tree, input: &[u8], l: &mut Local) -> CaseResult {
    let cj = || json!({"tree": tree, "input": hex(input)});
    let schema = schematree::to_owned_expected(tree);
    l.eval();
    crate::runner::set_pending(&cj().to_string());
    let (r, m) = crate::alloc::measure_limited(1 << 30, || no_panic(|| postcard_dyn::from_slice_dyn(&schema, input)));
    crate::runner::clear_pending();
    let r = r.map_err(|p| fail("dyn-total", format!("from_slice_dyn panicked: {}", p), cj()).sig(format!("panic:{}", panic_site(&p))))?;
    // the JSON output repeats field / variant names (object keys), so the schema-dependent factor counts name bytes too
    let bound = ALLOC_FACTOR * (input.len() + 1) * (tree.node_count() + 1) + 4 * tree.name_bytes() * (input.len() + 1) + 16384;
    if m.bytes > bound {
        let f = fail(
            "dyn-total",
            format!("from_slice_dyn on {} input bytes requested {} bytes (bound {} = {}*(len+1)*(schema nodes+1) + 4*(len+1)*name bytes + 16384)", input.len(), m.bytes, bound, ALLOC_FACTOR),
            cj(),
        );
        return Err(if has_zw_seq(tree) { f.sig(SIG_ZW_SEQ) } else { f });
    }
    match &r {
        Ok(j) => {
            // what it produced must at least not crash the encoder
            let _ = no_panic(|| postcard_dyn::to_stdvec_dyn(&schema, j))
                .map_err(|p| fail("dyn-total", format!("to_stdvec_dyn panicked on the decoder's own output: {}", p), cj()).sig(format!("panic:{}", panic_site(&p))))?;
            l.class("bytes-accepted");
            if j.is_array() || j.is_object() {
                l.nontrivial(&(tree, input));
            }
        }
        Err(_) => {
            l.class("bytes-rejected");
            l.nontrivial(&(tree, input));
        }
    }
    l.sample(|| format!("{:?} <= {} : {:?}", tree, hex(&input[..input.len().min(24)]), r.as_ref().map(|j| j.to_string()).map_err(|e| format!("{:?}", e))));
    Ok(())
}

pub fn check_json(tree: &Tree, j: &Json, near_miss: bool, l: &mut Local) -> CaseResult {
    let cj = || json!({"tree": tree, "json": j});
    let schema = schematree::to_owned_expected(tree);
    l.eval();
    let enc = no_panic(|| postcard_dyn::to_stdvec_dyn(&schema, j))
        .map_err(|p| fail("dyn-total", format!("to_stdvec_dyn panicked: {}", p), cj()).sig(format!("panic:{}", panic_site(&p))))?;
    match enc {
        Err(_) => {
            l.class("json-rejected");
            l.nontrivial(&(tree, j.to_string()));
        }
        Ok(b) => {
            let tag = |f: crate::runner::Fail| {
                if has_dup_fields(tree) {
                    f.sig(SIG_DUP_FIELDS)
                } else if has_opt_null(tree) {
                    f.sig(SIG_OPT_NULL)
                } else {
                    f
                }
            };
            let dec = no_panic(|| postcard_dyn::from_slice_dyn(&schema, &b))
                .map_err(|p| fail("dyn-total", format!("from_slice_dyn panicked on encoder output: {}", p), cj()).sig(format!("panic:{}", panic_site(&p))))?;
            let j2 = match dec {
                Ok(j2) => j2,
                Err(e) => {
                    return Err(tag(fail(
                        "dyn-total",
                        format!("to_stdvec_dyn accepted {} and produced {}, which from_slice_dyn rejects with {:?}", j, hex(&b), e),
                        cj(),
                    )))
                }
            };
            let re = no_panic(|| postcard_dyn::to_stdvec_dyn(&schema, &j2))
                .map_err(|p| fail("dyn-total", format!("to_stdvec_dyn panicked on decoder output: {}", p), cj()).sig(format!("panic:{}", panic_site(&p))))?;
            if re.as_ref() != Ok(&b) {
                return Err(tag(fail(
                    "dyn-total",
                    format!("encode({}) = {}; decode = {}; re-encode = {:?}", j, hex(&b), j2, re.map(|x| hex(&x))),
                    cj(),
                )));
            }
            l.class("json-accepted");
            if j.is_array() || j.is_object() || near_miss {
                l.nontrivial(&(tree, j.to_string()));
            }
        }
    }
    if near_miss {
        l.class("near-miss-json");
    }
    Ok(())
}

pub fn replay(case: &Json, l: &mut Local) -> CaseResult {
    let tree: Tree = serde_json::from_value(case["tree"].clone()).map_err(|e| fail("dyn-total", format!("bad replay: {}", e), case.clone()))?;
    if case.get("json").is_some() {
        check_json(&tree, &case["json"], false, l)
    } else {
        check_bytes(&tree, &crate::runner::unhex(case["input"].as_str().unwrap_or("")), l)
    }
}

fn arb_json(depth: u32) -> BoxedStrategy<Json> {
    let leaf = prop_oneof![
        Just(Json::Null),
        any::<bool>().prop_map(Json::Bool),
        any::<i64>().prop_map(|v| json!(v)),
        any::<u64>().prop_map(|v| json!(v)),
        (-300i64..300).prop_map(|v| json!(v)),
        any::<f64>().prop_map(|v| json!(v)),
        Just(json!(1e300)),
        Just(json!(-1e300)),
        Just(json!(3.5)),
        "[a-zA-Z]{0,3}".prop_map(Json::String),
        Just(json!("ab")),
        Just(json!("é")),
    ];
    leaf.prop_recursive(depth, 24, 4, |inner| {
        prop_oneof![
            proptest::collection::vec(inner.clone(), 0..4).prop_map(Json::Array),
            proptest::collection::vec((prop_oneof![Just("a".to_string()), Just("b".to_string()), Just("x".to_string()), Just("Ok".to_string()), Just("".to_string()), "[a-zA-Z]{1,3}".prop_map(|s| s)], inner), 0..4)
                .prop_map(|kv| Json::Object(kv.into_iter().collect())),
        ]
    })
    .boxed()
}

/// single-node near-miss edits of a JSON document
fn near_misses(j: &Json, out: &mut Vec<Json>, cap: usize) {
    fn alts(j: &Json) -> Vec<Json> {
        let mut v = vec![Json::Null, json!(true), json!(-1), json!(256), json!(70000), json!(1.5), json!(1e300), json!("x"), json!("xy"), json!([]), json!({}), json!([1]), json!({"a": 1})];
        match j {
            Json::Array(a) => {
                let mut longer = a.clone();
                longer.push(json!(0));
                v.push(Json::Array(longer));
                if !a.is_empty() {
                    v.push(Json::Array(a[1..].to_vec()));
                }
            }
            Json::Object(o) => {
                let mut more = o.clone();
                more.insert("zz_extra".into(), json!(1));
                v.push(Json::Object(more));
                if let Some(k) = o.keys().next().cloned() {
                    let mut less = o.clone();
                    less.remove(&k);
                    v.push(Json::Object(less));
                    let mut ren = o.clone();
                    let val = ren.remove(&k).unwrap();
                    ren.insert(format!("{}_", k), val);
                    v.push(Json::Object(ren));
                }
            }
            Json::Number(n) => {
                if let Some(u) = n.as_u64() {
                    v.push(json!(u.wrapping_add(1)));
                    v.push(json!(-(u as i64 >> 1)));
                }
                v.push(json!(u64::MAX));
                v.push(json!(i64::MIN));
            }
            Json::String(s) => {
                v.push(json!(format!("{}x", s)));
                v.push(json!(""));
            }
            _ => {}
        }
        v
    }
    fn rec(root: &Json, path: &mut Vec<String>, node: &Json, out: &mut Vec<Json>, cap: usize) {
        if out.len() >= cap {
            return;
        }
        for a in alts(node) {
            if out.len() >= cap {
                return;
            }
            out.push(replace(root, path, &a));
        }
        match node {
            Json::Array(a) => {
                for (i, c) in a.iter().enumerate().take(4) {
                    path.push(i.to_string());
                    rec(root, path, c, out, cap);
                    path.pop();
                }
            }
            Json::Object(o) => {
                for (k, c) in o.iter().take(4) {
                    path.push(k.clone());
                    rec(root, path, c, out, cap);
                    path.pop();
                }
            }
            _ => {}
        }
    }
    fn replace(root: &Json, path: &[String], new: &Json) -> Json {
        match path.split_first() {
            None => new.clone(),
            Some((k, rest)) => match root {
                Json::Array(a) => {
                    let i: usize = k.parse().unwrap();
                    let mut a2 = a.clone();
                    a2[i] = replace(&a[i], rest, new);
                    Json::Array(a2)
                }
                Json::Object(o) => {
                    let mut o2 = o.clone();
                    o2.insert(k.clone(), replace(&o[k], rest, new));
                    Json::Object(o2)
                }
                _ => new.clone(),
            },
        }
    }
    rec(j, &mut vec![], j, out, cap);
}

/// (tree, type-correct JSON if available, valid bytes if available)
fn arb_case(cfg: TreeCfg) -> BoxedStrategy<(Tree, Option<Json>, Option<Vec<u8>>)> {
    schematree::arb_tree(cfg)
        .prop_flat_map(|t| match dynmap::tree_to_shape(&t) {
            None => Just((t, None, None)).boxed(),
            Some(shape) => {
                let vs = gen::arb_value(&shape, ValCfg { max_len: 40, max_seq: 3 });
                (Just(t), Just(shape), vs)
                    .prop_map(|(t, shape, v)| {
                        let j = serde_json::to_value(&Typed(&shape, &v)).ok();
                        let b = ref_encode(&shape, &v).ok().map(|e| e.bytes);
                        (t, j, b)
                    })
                    .boxed()
            }
        })
        .boxed()
}

pub fn run(ctx: &Ctx) {
    ctx.set_rule(
        "cases: random schema trees over every node kind (incl. Char, Usize/Isize, 128-bit, nested options, non-string-keyed maps, \
         Schema) x bytes {random, valid encodings, single-byte corruptions, truncations, length varints replaced by moderate claims \
         2^8..2^20 and huge ones} and x JSON {type-correct from generated values, near-miss single-node edits (wrong JSON type, \
         out-of-range number, missing/extra/renamed field, wrong arity), unrelated random JSON}. oracle: no panic from either \
         function; from_slice_dyn requests <= 512*(len+1)*(schema nodes+1) + 4*(len+1)*(bytes of names in the schema) + 16384 bytes; whenever to_stdvec_dyn(s,j) == Ok(b): \
         from_slice_dyn(s,b) == Ok(j') and to_stdvec_dyn(s,j') == Ok(b). non-trivial = rejected input, accepted input with a \
         container, or near-miss JSON; distinct = hash(tree, input). the known findings (Seq of zero-width elements; Option of a \
         payload whose JSON is null; structs with duplicate field names) are excluded by construction and counted under excluded_known",
    );
    ctx.assume("hangs / out-of-memory are exit 2; the allocation clause is decided by the measured number on moderate claims");
    let cfg = TreeCfg { depth: 4, width: 4, exotic: true };
    let n = ctx.tier.pick(300_000, 3_000_000);
    ctx.par_proptest(
        "bytes",
        n,
        || (arb_case(cfg), proptest::collection::vec(prop_oneof![4 => 0u8..5, 2 => any::<u8>(), 1 => Just(0x80u8)], 0..40), proptest::collection::vec((any::<u16>(), any::<u8>()), 0..3)),
        |((t0, _j, valid), random, dmg), l| {
            let mut ex = 0;
            let t = sanitize(t0, &mut ex);
            l.excluded_known += ex;
            check_bytes(&t, random, l)?;
            if ex == 0 {
                if let Some(v) = valid {
                    check_bytes(&t, v, l)?;
                    if !v.is_empty() {
                        let mut b = v.clone();
                        for (p, x) in dmg {
                            let i = gen::pick_idx(*p, b.len());
                            b[i] = *x;
                        }
                        check_bytes(&t, &b, l)?;
                        if let Some((p, _)) = dmg.first() {
                            check_bytes(&t, &v[..gen::pick_idx(*p, v.len())], l)?;
                        }
                    }
                }
            }
            Ok(())
        },
    );
    // adversarial claimed lengths planted into valid encodings
    ctx.par_proptest(
        "bytes-claimed-lengths",
        n / 2,
        || arb_case(cfg),
        |(t0, _j, _valid), l| {
            let mut ex = 0;
            let t = sanitize(t0, &mut ex);
            l.excluded_known += ex;
            let Some(shape) = dynmap::tree_to_shape(&t) else { return Ok(()) };
            // deterministic small value of the sanitised schema
            let v = crate::runner::sample_once(&gen::arb_value(&shape, ValCfg { max_len: 6, max_seq: 2 }), t.node_count() as u64, "c18");
            let Ok(e) = ref_encode(&shape, &v) else { return Ok(()) };
            let mut done = 0;
            for (idx, &(_, _, bits)) in e.varint_spans.iter().enumerate() {
                if bits != 64 || done >= 4 {
                    continue;
                }
                done += 1;
                for c in [1u128 << 8, 1 << 12, 1 << 16, (1 << 20) - 1, 1 << 20, 1 << 40, 1 << 60, 1 << 61, (1 << 61) + 1, 1 << 62, (1 << 62) + 1, 1 << 63, (1 << 63) + 2, u64::MAX as u128 / 3, u64::MAX as u128] {
                    check_bytes(&t, &mutate::replace_varint(&e, idx, c), l)?;
                }
            }
            Ok(())
        },
    );
    // fixed-width elements under hostile counts: count * width may wrap
    {
        let trees: Vec<Tree> = vec![
            Tree::Seq(Box::new(Tree::F32)),
            Tree::Seq(Box::new(Tree::F64)),
            Tree::Seq(Box::new(Tree::U8)),
            Tree::Seq(Box::new(Tree::Bool)),
            Tree::Seq(Box::new(Tree::Tuple(vec![Tree::F32, Tree::F32]))),
            Tree::Seq(Box::new(Tree::Seq(Box::new(Tree::F64)))),
            Tree::Map(Box::new(Tree::String), Box::new(Tree::F64)),
            Tree::Map(Box::new(Tree::F32), Box::new(Tree::F32)),
            Tree::Tuple(vec![Tree::U8, Tree::Seq(Box::new(Tree::F32))]),
            Tree::Option(Box::new(Tree::Seq(Box::new(Tree::F64)))),
            Tree::String,
            Tree::ByteArray,
        ];
        let mut claims: Vec<u128> = vec![];
        for k in 28..64u32 {
            claims.extend([(1u128 << k) - 1, 1u128 << k, (1u128 << k) + 1]);
        }
        claims.extend([u64::MAX as u128, u64::MAX as u128 - 3, u64::MAX as u128 / 4, u64::MAX as u128 / 4 + 1, u64::MAX as u128 / 8 + 1]);
        let (trees, claims) = (&trees, &claims);
        ctx.par_range("fixed-width-elements-hostile-counts", (trees.len() * claims.len() * 4) as u64, move |i, l| {
            let i = i as usize;
            let t = &trees[i % trees.len()];
            let c = claims[(i / trees.len()) % claims.len()];
            let extra = [0usize, 4, 8, 17][i / (trees.len() * claims.len())];
            let lead: &[u8] = match t {
                Tree::Tuple(_) => &[7],
                Tree::Option(_) => &[1],
                _ => &[],
            };
            let mut input = lead.to_vec();
            input.extend(ref_encode(&crate::dynshape::Shape::U64, &crate::dynshape::Value::U(c)).unwrap().bytes);
            input.extend(std::iter::repeat(0x3F).take(extra));
            l.class("hostile-count-fixed-width");
            check_bytes(t, &input, l)
        });
    }
    // enums with more variants than fit one varint byte: every variant selected once
    {
        let widths = [127usize, 128, 129, 200, 255, 256, 257, 300];
        let total: usize = widths.iter().sum();
        ctx.par_range("wide-enums-every-variant", (total * 2) as u64, move |i, l| {
            let mut k = i as usize % total;
            let with_payload = i as usize >= total;
            let mut w = 0;
            for cand in widths {
                if k < cand {
                    w = cand;
                    break;
                }
                k -= cand;
            }
            let tree = Tree::Enum(
                "Op".into(),
                (0..w).map(|v| (format!("Op{}", v), if with_payload { TData::Newtype(Box::new(Tree::U8)) } else { TData::Unit })).collect(),
            );
            let j = if with_payload { json!({ format!("Op{}", k): 7 }) } else { json!(format!("Op{}", k)) };
            l.class("wide-enum-variant");
            check_json(&tree, &j, false, l)?;
            // the encoding the static codec would produce for this variant goes through the decoder without incident
            let mut want = ref_encode(&crate::dynshape::Shape::U32, &crate::dynshape::Value::U(k as u128)).unwrap().bytes;
            if with_payload {
                want.push(7);
            }
            check_bytes(&tree, &want, l)
        });
    }
    let n = ctx.tier.pick(200_000, 2_000_000);
    ctx.par_proptest(
        "json",
        n,
        || (arb_case(cfg), arb_json(3)),
        |((t0, j, _), random), l| {
            let mut ex = 0;
            let t = sanitize_opts(t0, &mut ex, false);
            l.excluded_known += ex;
            check_json(&t, random, false, l)?;
            if ex == 0 {
                if let Some(j) = j {
                    check_json(&t, j, false, l)?;
                    let schema = schematree::to_owned_expected(&t);
                    let before = no_panic(|| postcard_dyn::to_stdvec_dyn(&schema, j)).ok();
                    let mut nm = vec![];
                    near_misses(j, &mut nm, 60);
                    for m in &nm {
                        check_json(&t, m, true, l)?;
                        // the codec is stateless: the answer for `j` is the same after any other call
                        let after = no_panic(|| postcard_dyn::to_stdvec_dyn(&schema, j)).ok();
                        if after != before {
                            return Err(fail(
                                "dyn-total",
                                format!("to_stdvec_dyn(s, j) changed from {:?} to {:?} after an unrelated call with {}", before, after, m),
                                json!({"tree": t, "json": j, "after_json": m}),
                            ));
                        }
                    }
                    check_json(&t, j, false, l)?;
                }
            }
            Ok(())
        },
    );
    // deep chains with every container kind on the path, with a type-correct value that descends to the bottom
    let nd = ctx.tier.pick(12_000, 150_000);
    ctx.par_proptest(
        "deep-mixed-chains-full-values",
        nd,
        || prop_oneof![schematree::arb_deep_mixed_chain(140), schematree::arb_deep_variant_chain(140)],
        |t0, l| {
            let mut ex = 0;
            let t = sanitize(t0, &mut ex);
            l.excluded_known += ex;
            let Some(shape) = dynmap::tree_to_shape(&t) else { return Ok(()) };
            let v = dynmap::full_value(&shape, t.node_count() as u8);
            let Ok(j) = serde_json::to_value(&Typed(&shape, &v)) else { return Ok(()) };
            l.class("deep-full-value");
            check_json(&t, &j, false, l)?;
            if let Ok(e) = ref_encode(&shape, &v) {
                check_bytes(&t, &e.bytes, l)?;
                // the bytes of the honest encoding are accepted by the dynamic decoder
                let schema = schematree::to_owned_expected(&t);
                if let Ok(Err(err)) = no_panic(|| postcard_dyn::from_slice_dyn(&schema, &e.bytes)) {
                    let enc = no_panic(|| postcard_dyn::to_stdvec_dyn(&schema, &j));
                    if matches!(enc, Ok(Ok(_))) {
                        return Err(fail(
                            "dyn-total",
                            format!("to_stdvec_dyn accepts the value but from_slice_dyn rejects its encoding with {:?}", err),
                            json!({"tree": t, "json": j}),
                        ));
                    }
                }
            }
            Ok(())
        },
    );
    // many elements, little data per element
    ctx.par_proptest("long-sparse-collections", ctx.tier.pick(2_000, 30_000), gen::arb_long_sparse, |(s, v), l| {
        let tree = dynmap::shape_to_tree(s);
        let mut ex = 0;
        let t = sanitize(&tree, &mut ex);
        if ex > 0 {
            l.excluded_known += ex;
            return Ok(());
        }
        let Ok(j) = serde_json::to_value(&Typed(s, v)) else { return Ok(()) };
        l.class("long-sparse-collection");
        check_json(&t, &j, false, l)?;
        if let Ok(e) = ref_encode(s, v) {
            check_bytes(&t, &e.bytes, l)?;
            // the honest encoding of a value the encoder accepts is accepted by the decoder
            let schema = schematree::to_owned_expected(&t);
            if let (Ok(Ok(b)), Ok(Err(err))) = (no_panic(|| postcard_dyn::to_stdvec_dyn(&schema, &j)), no_panic(|| postcard_dyn::from_slice_dyn(&schema, &e.bytes))) {
                if b == e.bytes {
                    return Err(fail("dyn-total", format!("from_slice_dyn rejects ({:?}) the bytes to_stdvec_dyn produced for a {}-element collection", err, j.as_array().map(|a| a.len()).unwrap_or(0)), json!({"tree": t, "json": j})));
                }
            }
        }
        Ok(())
    });
    // input-driven recursion: long runs of one byte value under schemas of every kind, decoded on a thread with an ordinary
    // (2 MiB) stack - recursion whose depth follows the input instead of the schema overflows it and is reported by the
    // crash handler together with the pending case
    {
        let trees: Vec<Tree> = vec![
            Tree::Schema,
            Tree::Seq(Box::new(Tree::Schema)),
            Tree::Struct("S".into(), TData::Struct(vec![("kind".to_string(), Tree::Schema), ("n".to_string(), Tree::U8)])),
            Tree::Option(Box::new(Tree::Schema)),
            Tree::Seq(Box::new(Tree::Seq(Box::new(Tree::U8)))),
            Tree::Option(Box::new(Tree::Option(Box::new(Tree::Seq(Box::new(Tree::Option(Box::new(Tree::U8)))))))),
            Tree::Map(Box::new(Tree::String), Box::new(Tree::Seq(Box::new(Tree::String)))),
            Tree::Enum("E".into(), vec![("A".to_string(), TData::Unit), ("B".to_string(), TData::Newtype(Box::new(Tree::Seq(Box::new(Tree::U8)))))]),
        ];
        let lens = [1_000usize, 6_000, 30_000, 120_000];
        let total = (trees.len() * 48 * lens.len()) as u64;
        let trees = &trees;
        ctx.par_range("byte-runs-on-a-2MiB-stack", total, move |i, l| {
            let i = i as usize;
            let t = &trees[i % trees.len()];
            let b = ((i / trees.len()) % 48) as u8;
            let n = lens[i / (trees.len() * 48)];
            let mut input = vec![b; n];
            input.extend_from_slice(&[0, 1, 0]);
            l.class("byte-run-small-stack");
            let r = std::thread::scope(|sc| {
                std::thread::Builder::new()
                    .stack_size(2 << 20)
                    .spawn_scoped(sc, || {
                        let mut inner = Local::new();
                        let r = check_bytes(t, &input, &mut inner);
                        (r, inner)
                    })
                    .expect("spawn")
                    .join()
            });
            match r {
                Ok((res, inner)) => {
                    l.evals_n(inner.evals);
                    l.nontrivial(&(i, "byte-run"));
                    res
                }
                Err(_) => Err(fail("dyn-total", "decoding thread died", json!({"tree": t, "input_byte": b, "input_len": n}))),
            }
        });
    }
    // maps with non-string keys: objects whose keys are different spellings of the same key value
    {
        let key_trees = [Tree::U8, Tree::U32, Tree::I16, Tree::I64, Tree::Bool, Tree::Char, Tree::F32, Tree::Unit];
        const KEYS: [&str; 16] = ["0", "-0", "+0", "00", "7", "07", "+7", "7.0", "7e0", "true", "True", "a", "", " 7", "255", "256"];
        let total = (key_trees.len() * (1 << 10)) as u64;
        let key_trees = &key_trees;
        ctx.par_range("non-string-keyed-maps", total, move |i, l| {
            let kt = &key_trees[(i as usize) % key_trees.len()];
            let mask = (i as usize) / key_trees.len();
            let tree = Tree::Map(Box::new(kt.clone()), Box::new(Tree::U8));
            let mut obj = serde_json::Map::new();
            let mut val = 1u64;
            for (k, key) in KEYS.iter().enumerate() {
                // subsets of up to 4 keys drawn by the mask (two 4-bit positions + their neighbours)
                if k == mask % 16 || k == (mask / 16) % 16 || (mask / 256) & (1 << (k % 4)) != 0 && k < 4 {
                    obj.insert(key.to_string(), json!(val));
                    val += 1;
                }
            }
            l.class("non-string-keyed-map");
            check_json(&tree, &Json::Object(obj), true, l)
        });
    }
    if ctx.tier == crate::runner::Tier::Thorough {
        // every f32: the number that encodes to these four bytes decodes and re-encodes to the same four bytes
        ctx.par_range("exhaustive-f32", 1u64 << 32, |i, l| {
            let f = f32::from_bits(i as u32);
            if !f.is_finite() {
                return Ok(());
            }
            l.nontrivial_enum(1);
            check_json(&Tree::F32, &json!(f as f64), false, l)
        });
        ctx.exhausted("all finite f32 values through the dynamic encoder -> decoder -> encoder");
    }
    let n = ctx.tier.pick(20_000, 200_000);
    ctx.par_proptest(
        "deep-and-wide-schemas",
        n,
        || (schematree::arb_deep_or_wide(120, 150), proptest::collection::vec(0u8..4, 0..64), arb_json(2)),
        |(t0, b, j), l| {
            let mut ex = 0;
            let t = sanitize(t0, &mut ex);
            l.excluded_known += ex;
            check_bytes(&t, b, l)?;
            check_json(&t, j, false, l)
        },
    );
}
