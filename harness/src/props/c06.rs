//! C06 — COBS-framed output is one well-formed frame and decodes back, frame by frame.

use super::common::*;
use crate::dynshape::{with_shape, Dyn, Shape, Typed, Value};
use crate::gen::{self, ShapeCfg, ValCfg};
use crate::refcobs;
use crate::refcodec::ref_encode;
use crate::runner::{fail, hex, no_panic, CaseResult, Ctx, Local};
use proptest::prelude::*;
use serde_json::{json, Value as Json};

pub fn raw(bytes: &[u8]) -> (Shape, Value) {
    (
        Shape::Tuple(vec![Shape::U8; bytes.len()]),
        Value::List(bytes.iter().map(|b| Value::U(*b as u128)).collect()),
    )
}

pub fn check_frame(shape: &Shape, value: &Value, l: &mut Local) -> CaseResult {
    let cj = || case_json(shape, value);
    let Ok(e) = ref_encode(shape, value) else { return Ok(()) };
    let plain = &e.bytes;
    let want = refcobs::frame(plain);
    let t = Typed(shape, value);
    {
        // the encoders are stateless: a call that was refused after it had produced some bytes leaves nothing behind
        let bad_shape = Shape::Tuple(vec![Shape::U8, Shape::Str, Shape::UnsizedSeq(Box::new(Shape::U8))]);
        let bad_value = Value::List(vec![Value::U(0xAA), Value::Str("left".into()), Value::List(vec![Value::U(1)])]);
        let bad = Typed(&bad_shape, &bad_value);
        let _ = no_panic(|| postcard::to_stdvec_cobs(&bad));
        let _ = no_panic(|| postcard::to_allocvec_cobs(&bad));
        let _ = no_panic(|| postcard::to_vec_cobs::<_, 64>(&bad).map(|v| v.len()));
    }
    l.eval();
    let a = no_panic(|| postcard::to_allocvec_cobs(&t)).map_err(|p| fail("frame", format!("to_allocvec_cobs panicked: {}", p), cj()))?;
    let a = a.map_err(|e| fail("frame", format!("to_allocvec_cobs failed: {:?}", e), cj()))?;
    if a != want {
        return Err(fail("frame", format!("to_allocvec_cobs = {} but standard COBS of the plain encoding + sentinel = {}", hex(&a), hex(&want)), cj()));
    }
    let s = no_panic(|| postcard::to_stdvec_cobs(&t)).map_err(|p| fail("frame", format!("to_stdvec_cobs panicked: {}", p), cj()))?;
    if s.as_deref() != Ok(&want[..]) {
        return Err(fail("frame", "to_stdvec_cobs differs from the reference frame", cj()));
    }
    let mut buf = vec![0x77u8; want.len() + 2];
    let s = no_panic(|| postcard::to_slice_cobs(&t, &mut buf).map(|s| s.to_vec())).map_err(|p| fail("frame", format!("to_slice_cobs panicked: {}", p), cj()))?;
    if s.as_deref() != Ok(&want[..]) {
        return Err(fail("frame", format!("to_slice_cobs = {:?}, reference {}", s.map(|b| hex(&b)), hex(&want)), cj()));
    }
    // whatever the size of the caller's slice: the call fails, or what it returns is the frame
    {
        let m = want.len();
        let mut caps = vec![m.saturating_sub(2), m.saturating_sub(1), m, m + 1, 2 * m.saturating_sub(2), 2 * m.saturating_sub(2) + 1, 2 * m, 2 * m + 1, 63, 64, 65, 128];
        caps.dedup();
        for c in caps {
            let mut buf = vec![0x5Au8; c];
            let s = no_panic(|| postcard::to_slice_cobs(&t, &mut buf).map(|s| s.to_vec())).map_err(|p| fail("frame", format!("to_slice_cobs panicked: {}", p), cj()))?;
            match s {
                Ok(b) if b == want => {}
                // (when the call must succeed is C05's statement)
                Err(_) => {}
                other => {
                    return Err(fail("frame", format!("to_slice_cobs into {} bytes = {:?}, reference {} ({} bytes)", c, other.map(|b| hex(&b)), hex(&want), m), cj()));
                }
            }
        }
        macro_rules! hv {
            ($($n:literal),*) => {$(
                let s = no_panic(|| postcard::to_vec_cobs::<_, $n>(&t).map(|s| s.to_vec())).map_err(|p| fail("frame", format!("to_vec_cobs panicked: {}", p), cj()))?;
                match s {
                    Ok(b) if b == want => {}
                    Err(_) => {}
                    other => {
                        return Err(fail("frame", format!("to_vec_cobs::<_, {}> = {:?}, reference {} ({} bytes)", $n, other.map(|b| hex(&b)), hex(&want), m), cj()));
                    }
                }
            )*};
        }
        if m <= 12 {
            hv!(1, 2, 3, 4, 5, 6, 7, 8, 9, 10, 11, 12);
        } else if (250..=262).contains(&m) {
            hv!(253, 254, 255, 256, 257, 258, 259, 260);
        }
    }
    if want.len() <= 2048 {
        let s = no_panic(|| postcard::to_vec_cobs::<_, 2048>(&t).map(|s| s.to_vec())).map_err(|p| fail("frame", format!("to_vec_cobs panicked: {}", p), cj()))?;
        if s.as_deref() != Ok(&want[..]) {
            return Err(fail("frame", format!("to_vec_cobs = {:?}, reference {}", s.map(|b| hex(&b)), hex(&want)), cj()));
        }
    }
    // structural facts, stated on the implementation's output
    let zeros = a.iter().filter(|b| **b == 0).count();
    if zeros != 1 || *a.last().unwrap() != 0 {
        return Err(fail("frame", format!("frame has {} zero bytes / does not end in the sentinel: {}", zeros, hex(&a)), cj()));
    }
    let n = plain.len();
    let zero_free = !plain.contains(&0);
    if zero_free && a.len() != n + n / 254 + 2 {
        return Err(fail("frame", format!("zero-free {}-byte message framed in {} bytes, formula gives {}", n, a.len(), n + n / 254 + 2), cj()));
    }
    if a.len() > n + n / 254 + 2 {
        return Err(fail("frame", format!("{}-byte message framed in {} bytes, more than n + n/254 + 2", n, a.len()), cj()));
    }
    // decodes back
    if !shape.encoder_only() {
        let mut copy = a.clone();
        let (r, log) = with_shape(shape, || no_panic(|| postcard::from_bytes_cobs::<Dyn>(&mut copy)));
        let r = r.map_err(|p| fail("frame", format!("from_bytes_cobs panicked: {}", p), cj()))?;
        if !log.skipped_zero_width {
            match r {
                Ok(Dyn(v)) if v == *value => {}
                other => return Err(fail("frame", format!("from_bytes_cobs of the frame gave {:?}", other.map(|d| d.0)), cj())),
            }
        }
    }
    if !zero_free || n >= 254 {
        l.nontrivial(&(shape, &a));
        l.class(if n >= 254 { "long>=254" } else { "has-zero" });
    }
    l.sample(|| format!("plain {} -> frame {}", hex(&plain[..plain.len().min(24)]), hex(&a[..a.len().min(28)])));
    Ok(())
}

/// k frames back to back; frame-at-a-time decoding yields each value and exactly the bytes after
/// its sentinel.
pub fn check_sequence(shape: &Shape, values: &[Value], strip_last: bool, garbage: &[u8], l: &mut Local) -> CaseResult {
    let cj = || json!({"shape": shape, "values": values, "strip_last": strip_last, "garbage": hex(garbage)});
    let mut stream = vec![];
    let mut ends = vec![];
    for v in values {
        let Ok(e) = ref_encode(shape, v) else { return Ok(()) };
        stream.extend(refcobs::frame(&e.bytes));
        ends.push(stream.len());
    }
    if strip_last && !values.is_empty() {
        stream.pop();
        *ends.last_mut().unwrap() = stream.len();
    } else {
        // garbage only makes sense after a sentinel
        stream.extend_from_slice(garbage);
    }
    let original = stream.clone();
    l.eval();
    let mut off = 0usize;
    let total = stream.len();
    let mut rest: &mut [u8] = &mut stream[..];
    for (i, v) in values.iter().enumerate() {
        let before_len = rest.len();
        let (r, log) = with_shape(shape, || no_panic(|| postcard::take_from_bytes_cobs::<Dyn>(rest)));
        let r = r.map_err(|p| fail("sequence", format!("take_from_bytes_cobs panicked: {}", p), cj()))?;
        if log.skipped_zero_width {
            l.skipped += 1;
            return Ok(());
        }
        match r {
            Ok((Dyn(got), rem)) => {
                if got != *v {
                    return Err(fail("sequence", format!("frame {} decoded as {:?}, expected {:?}", i, got, v), cj()));
                }
                let consumed = before_len - rem.len();
                off += consumed;
                if off != ends[i] {
                    return Err(fail("sequence", format!("after frame {} the remainder starts at offset {}, the frame ends at {}", i, off, ends[i]), cj()));
                }
                if rem != &original[off..] {
                    return Err(fail("sequence", format!("remainder after frame {} differs from the bytes that follow it", i), cj()));
                }
                rest = rem;
            }
            Err(e) => return Err(fail("sequence", format!("frame {} failed with {:?}", i, e), cj())),
        }
    }
    if off + if strip_last { 0 } else { garbage.len() } != total {
        return Err(fail("sequence", "stream accounting mismatch (harness)", cj()));
    }
    if values.len() >= 2 {
        l.nontrivial(&(shape, &original, strip_last));
        l.class("multi-frame");
    }
    if strip_last {
        l.class("last-sentinel-stripped");
    }
    Ok(())
}

#[derive(serde::Serialize, Clone, Copy)]
enum OnlyOne {
    Reset,
}
#[derive(serde::Serialize)]
struct Marker;

/// Values whose in-memory size is zero: every COBS entry point frames what the plain encoder writes for them.
fn zero_sized_values(l: &mut Local) -> CaseResult {
    fn one<T: serde::Serialize + ?Sized>(name: &str, v: &T, l: &mut Local) -> CaseResult {
        let cj = || json!({"zero_sized_value": name});
        l.eval();
        let plain = postcard::to_allocvec(v).map_err(|e| fail("frame", format!("{}: to_allocvec failed: {:?}", name, e), cj()))?;
        let want = refcobs::frame(&plain);
        let mut buf = vec![0x77u8; want.len() + 3];
        let outs: Vec<(&str, postcard::Result<Vec<u8>>)> = vec![
            ("to_allocvec_cobs", no_panic(|| postcard::to_allocvec_cobs(v)).map_err(|p| fail("frame", format!("{} panicked: {}", name, p), cj()))?),
            ("to_stdvec_cobs", no_panic(|| postcard::to_stdvec_cobs(v)).map_err(|p| fail("frame", format!("{} panicked: {}", name, p), cj()))?),
            ("to_vec_cobs<64>", no_panic(|| postcard::to_vec_cobs::<T, 64>(v).map(|x| x.to_vec())).map_err(|p| fail("frame", format!("{} panicked: {}", name, p), cj()))?),
            ("to_slice_cobs", no_panic(|| postcard::to_slice_cobs(v, &mut buf).map(|s| s.to_vec())).map_err(|p| fail("frame", format!("{} panicked: {}", name, p), cj()))?),
        ];
        for (ep, got) in outs {
            if got.as_ref() != Ok(&want) {
                return Err(fail("frame", format!("{}: {} = {:?}, the COBS transform of its plain encoding {} is {}", name, ep, got.map(|b| hex(&b)), hex(&plain), hex(&want)), cj()));
            }
        }
        l.nontrivial(&(name, "zero-sized"));
        Ok(())
    }
    one("OnlyOne::Reset", &OnlyOne::Reset, l)?;
    one("[OnlyOne; 3]", &[OnlyOne::Reset; 3], l)?;
    one("(OnlyOne, OnlyOne)", &(OnlyOne::Reset, OnlyOne::Reset), l)?;
    one("Marker", &Marker, l)?;
    one("()", &(), l)?;
    one("empty str", "", l)?;
    one("empty [u8]", &[0u8; 0][..], l)?;
    one("[(); 2] as slice", &[(), ()][..], l)?;
    one("[OnlyOne] slice", &[OnlyOne::Reset, OnlyOne::Reset][..], l)?;
    one("Option<OnlyOne>::Some", &Some(OnlyOne::Reset), l)?;
    one("PhantomData", &std::marker::PhantomData::<u64>, l)?;
    one("Vec<()> of 5", &vec![(); 5], l)
}

pub fn replay(case: &Json, l: &mut Local) -> CaseResult {
    if case.get("zero_sized_value").is_some() {
        return zero_sized_values(l);
    }
    let shape = shape_of(case);
    if case.get("values").is_some() {
        let values: Vec<Value> = serde_json::from_value(case["values"].clone()).unwrap();
        let g = crate::runner::unhex(case["garbage"].as_str().unwrap_or(""));
        check_sequence(&shape, &values, case["strip_last"].as_bool().unwrap_or(false), &g, l)
    } else {
        check_frame(&shape, &value_of(case), l)
    }
}

const ALPHA4: [u8; 4] = [0x00, 0x01, 0x02, 0xFF];
const ALPHA3: [u8; 3] = [0x00, 0x01, 0xFF];

fn nth_word(mut i: u64, alpha: &[u8]) -> Vec<u8> {
    let a = alpha.len() as u64;
    let mut len = 0u32;
    loop {
        let c = a.pow(len);
        if i < c {
            break;
        }
        i -= c;
        len += 1;
    }
    (0..len)
        .map(|_| {
            let b = alpha[(i % a) as usize];
            i /= a;
            b
        })
        .collect()
}

fn count_words(alpha: usize, max: u32) -> u64 {
    (0..=max).map(|k| (alpha as u64).pow(k)).sum()
}

pub fn run(ctx: &Ctx) {
    ctx.set_rule(
        "cases: raw messages (Tuple(u8^n): every byte string is a plain encoding) exhaustive over {00,01,02,FF}^<=8; zero-free \
         and zero-planted runs around 254/508/762; random messages <= 2 kB; generated (shape,value)s; sequences of 1-6 frames \
         with the last sentinel present or stripped and optional trailing bytes. oracle: reference COBS encoder written from \
         the definition (+ sentinel), one zero byte (last), length formula, from_bytes_cobs inverse, take_from_bytes_cobs \
         remainder == bytes after the frame. non-trivial = message has a zero byte or >= 254 bytes, or sequence of >= 2 frames; \
         distinct = hash(shape, frame)",
    );
    ctx.serial("zero-sized-values", zero_sized_values);
    let max = ctx.tier.pick(8, 8);
    ctx.par_range("exhaustive-alphabet-4", count_words(4, max), |i, l| {
        let w = nth_word(i, &ALPHA4);
        let (s, v) = raw(&w);
        let before = l.nontrivial.len();
        let r = check_frame(&s, &v, l);
        if l.nontrivial.len() > before {
            l.nontrivial.clear();
            l.nontrivial_enum(1);
        }
        r
    });
    ctx.exhausted("all messages over {00,01,02,FF} of length <= 8");
    if ctx.tier == crate::runner::Tier::Thorough {
        ctx.par_range("exhaustive-alphabet-3", count_words(3, 12), |i, l| {
            let w = nth_word(i, &ALPHA3);
            let (s, v) = raw(&w);
            let before = l.nontrivial.len();
            let r = check_frame(&s, &v, l);
            if l.nontrivial.len() > before {
                l.nontrivial.clear();
                l.nontrivial_enum(1);
            }
            r
        });
        ctx.exhausted("all messages over {00,01,FF} of length <= 12");
    }
    // boundary families: zero-free runs of every length 0..=770, and one zero planted at every position for lengths near boundaries
    ctx.par_range("zero-free-runs", 771, |n, l| {
        let w = vec![0x5Au8; n as usize];
        let (s, v) = raw(&w);
        check_frame(&s, &v, l)
    });
    let lens: Vec<usize> = vec![252, 253, 254, 255, 256, 507, 508, 509, 510, 761, 762, 763];
    let total: u64 = lens.iter().map(|n| *n as u64).sum();
    {
        let lens = &lens;
        ctx.par_range("planted-zero", total, move |mut i, l| {
            let mut n = 0;
            for len in lens.iter() {
                if i < *len as u64 {
                    n = *len;
                    break;
                }
                i -= *len as u64;
            }
            let mut w = vec![0xC3u8; n];
            w[i as usize] = 0;
            let (s, v) = raw(&w);
            check_frame(&s, &v, l)
        });
    }
    // the same planted zero inside a *slice* payload (byte strings reach the COBS flavour through its block-write path)
    {
        let lens = &lens;
        ctx.par_range("planted-zero-in-byte-string", total, move |mut i, l| {
            let mut n = 0;
            for len in lens.iter() {
                if i < *len as u64 {
                    n = *len;
                    break;
                }
                i -= *len as u64;
            }
            let mut w = vec![0x3Cu8; n];
            w[i as usize] = 0;
            check_frame(&Shape::ByteBuf, &Value::Bytes(w.clone()), l)?;
            // and as a str followed by a float (another block write)
            let text: String = w.iter().map(|b| if *b == 0 { '\0' } else { 'k' }).collect();
            check_frame(
                &Shape::Tuple(vec![Shape::String, Shape::F32]),
                &Value::List(vec![Value::Str(text), Value::F32(0x3F80_0001)]),
                l,
            )
        });
    }
    // a few zero bytes, then a long zero-free run (full 0xFF block after short blocks), then a tail
    let nn = ctx.tier.pick(20_000, 200_000);
    ctx.par_proptest(
        "zeros-then-long-run",
        nn,
        || {
            (
                proptest::collection::vec(prop_oneof![Just(0u8), Just(0u8), 1u8..=255], 0..5),
                prop_oneof![250usize..260, 500usize..515, 760usize..770, 254usize..255, 508usize..509],
                proptest::collection::vec(prop_oneof![Just(0u8), 1u8..=255], 0..4),
                any::<bool>(),
            )
        },
        |(pre, run, post, as_bytes), l| {
            let mut w = pre.clone();
            w.extend(std::iter::repeat(0x6Du8).take(*run));
            w.extend_from_slice(post);
            if *as_bytes {
                check_frame(&Shape::ByteBuf, &Value::Bytes(w), l)
            } else {
                let (s, v) = raw(&w);
                check_frame(&s, &v, l)
            }
        },
    );
    let n = ctx.tier.pick(60_000, 600_000);
    ctx.par_proptest(
        "random-raw",
        n,
        || gen::arb_bytes(2048).prop_map(|b| raw(&b)),
        |(s, v), l| check_frame(s, v, l),
    );
    if ctx.tier == crate::runner::Tier::Thorough {
        ctx.par_proptest(
            "long-raw",
            400,
            || (proptest::collection::vec(prop_oneof![9 => 1u8..=255, 1 => Just(0u8)], 60_000..70_000)).prop_map(|b| raw(&b)),
            |(s, v), l| check_frame(s, v, l),
        );
    }
    let scfg = ShapeCfg { encoder_only: true, ..ShapeCfg::default() };
    ctx.par_proptest("random-trees", n, || gen::arb_typed(scfg.clone(), ValCfg { max_len: 600, max_seq: 4 }), |(s, v), l| check_frame(s, v, l));

    // sequences
    let n = ctx.tier.pick(80_000, 800_000);
    ctx.par_proptest(
        "frame-sequences",
        n,
        || {
            gen::arb_shape(ShapeCfg { depth: 3, ..ShapeCfg::default() }).prop_flat_map(|s| {
                let vs = proptest::collection::vec(gen::arb_value(&s, ValCfg { max_len: 300, max_seq: 3 }), 1..=6);
                (Just(s), vs, any::<bool>(), proptest::collection::vec(any::<u8>(), 0..6))
            })
        },
        |(s, vs, strip, g), l| check_sequence(s, vs, *strip, g, l),
    );
    ctx.par_proptest(
        "raw-frame-sequences",
        n,
        || {
            (proptest::collection::vec(gen::arb_bytes(300), 1..=6), any::<bool>(), proptest::collection::vec(any::<u8>(), 0..6))
        },
        |(msgs, strip, g), l| {
            // all messages get the same length so one shape fits; pad with 0x01
            let n = msgs.iter().map(|m| m.len()).max().unwrap_or(0);
            let shape = Shape::Tuple(vec![Shape::U8; n]);
            let vals: Vec<Value> = msgs
                .iter()
                .map(|m| {
                    let mut m = m.clone();
                    m.resize(n, 1);
                    Value::List(m.into_iter().map(|b| Value::U(b as u128)).collect())
                })
                .collect();
            check_sequence(&shape, &vals, *strip, g, l)
        },
    );
    // long frames (several 254-byte COBS blocks, some cut short by zeros) followed by more frames
    ctx.par_proptest(
        "long-raw-frame-sequences",
        n / 16,
        || {
            (
                proptest::collection::vec(
                    (prop_oneof![Just(508usize), Just(509), Just(762), 254usize..1300], prop_oneof![Just(0u32), Just(1), 2u32..12, Just(40)], any::<u64>()),
                    2..=4,
                ),
                any::<bool>(),
                proptest::collection::vec(any::<u8>(), 0..4),
            )
        },
        |(specs, strip, g), l| {
            let n = specs.iter().map(|s| s.0).max().unwrap_or(0);
            let shape = Shape::Tuple(vec![Shape::U8; n]);
            let vals: Vec<Value> = specs
                .iter()
                .map(|(_, zeros, seed)| {
                    // non-zero filler with `zeros` zero bytes at positions derived from the seed
                    let mut m: Vec<u8> = (0..n).map(|k| 1 + ((k as u64).wrapping_mul(31).wrapping_add(*seed) % 255) as u8).collect();
                    let mut x = *seed | 1;
                    for _ in 0..*zeros {
                        x = x.wrapping_mul(6364136223846793005).wrapping_add(1442695040888963407);
                        let pos = (x >> 33) as usize % n.max(1);
                        if n > 0 {
                            m[pos] = 0;
                        }
                    }
                    Value::List(m.into_iter().map(|b| Value::U(b as u128)).collect())
                })
                .collect();
            l.class("long-frame-sequence");
            check_sequence(&shape, &vals, *strip, g, l)
        },
    );
    // frames with more than 254 full COBS blocks, followed by another frame
    {
        let lens: Vec<usize> = vec![64_515, 64_516, 64_517, 64_770, 65_535, 65_536, 70_000, 130_000];
        let lens = &lens;
        ctx.par_range("very-long-frame-sequences", (lens.len() * 3) as u64, move |i, l| {
            let i = i as usize;
            let n = lens[i % lens.len()];
            let zeros = [0usize, 1, 40][i / lens.len()];
            let mut payload: Vec<u8> = (0..n).map(|k| 1 + (k % 255) as u8).collect();
            for z in 0..zeros {
                let pos = (z * 7919 + 1000) % n;
                payload[pos] = 0;
            }
            let vals = vec![Value::Bytes(payload), Value::Bytes(vec![1, 0, 2]), Value::Bytes(vec![])];
            l.class("very-long-frame-sequence");
            // the encoder on the very long message (byte-string route and element-by-element route), then the decoders
            check_frame(&Shape::ByteBuf, &vals[0], l)?;
            if let Value::Bytes(b) = &vals[0] {
                let (s, v) = raw(b);
                check_frame(&s, &v, l)?;
            }
            check_sequence(&Shape::ByteBuf, &vals, i % 2 == 0, &[7, 7], l)
        });
    }
}
