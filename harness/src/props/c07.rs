//! C07 — COBS decoding of arbitrary bytes is total and agrees with the COBS definition.

use super::common::*;
use crate::dynshape::{with_shape, Dyn, Name, Shape};
use crate::gen;
use crate::guard::{Flush, GuardArena};
use crate::refcobs;
use crate::refcodec::{classify, ref_decode, DecErr};
use crate::runner::{clear_pending, fail, hex, no_panic, set_pending, CaseResult, Ctx, Local};
use proptest::prelude::*;
use serde_json::{json, Value as Json};
use std::cell::RefCell;

thread_local! {
    static ARENA: RefCell<GuardArena> = RefCell::new(GuardArena::new(1 << 18));
}

pub fn target_shapes() -> Vec<Shape> {
    vec![
        Shape::Unit,
        Shape::U8,
        Shape::U32,
        Shape::Tuple(vec![Shape::U8; 3]),
        Shape::Struct(Name("S"), vec![(Name("a"), Shape::Str), (Name("b"), Shape::Bytes)]),
        Shape::Seq(Box::new(Shape::U16)),
        Shape::Option(Box::new(Shape::Str)),
        Shape::ByteBuf,
    ]
}

/// expected outcome of plain-decoding `payload`
fn expect(shape: &Shape, payload: &[u8]) -> Result<crate::dynshape::Value, DecErr> {
    ref_decode(shape, payload).map(|d| d.value)
}

pub fn check(shape: &Shape, input: &[u8], flush_end: bool, l: &mut Local) -> CaseResult {
    let cj = || case_bytes_json(shape, input);
    let frame = refcobs::decode_first_frame(input);
    let flush = if flush_end { Flush::End } else { Flush::Start };
    l.eval();
    let wellformed = frame.payload.is_some();
    let expected = frame.payload.as_ref().map(|p| expect(shape, p));
    if let Some(Err(DecErr::ZeroWidthSkip)) = expected {
        l.skipped += 1;
        return Ok(());
    }
    ARENA.with(|a| -> CaseResult {
        let mut a = a.borrow_mut();
        // from_bytes_cobs
        {
            let buf = a.load(input, flush);
            let (r, log) = with_shape(shape, || no_panic(|| postcard::from_bytes_cobs::<Dyn>(buf)));
            let r = r.map_err(|p| fail("cobs-decode", format!("from_bytes_cobs panicked: {}", p), cj()))?;
            if log.skipped_zero_width {
                l.skipped += 1;
                return Ok(());
            }
            judge("from_bytes_cobs", shape, input, &expected, r.map(|d| d.0), &cj)?;
            // (what from_bytes_cobs leaves behind the frame in the caller's buffer is not part of the statement:
            // only take_from_bytes_cobs hands those bytes back, and there they are compared)
        }
        // take_from_bytes_cobs
        {
            let buf = a.load(input, flush);
            let base = buf.as_ptr() as usize;
            let (r, _log) = with_shape(shape, || no_panic(|| postcard::take_from_bytes_cobs::<Dyn>(buf).map(|(d, rem)| (d, rem.as_ptr() as usize, rem.len()))));
            let r = r.map_err(|p| fail("cobs-decode", format!("take_from_bytes_cobs panicked: {}", p), cj()))?;
            if let Ok((_, ptr, len)) = &r {
                if (*len > 0 && *ptr != base + frame.frame_end) || *len != input.len() - frame.frame_end {
                    return Err(fail(
                        "cobs-decode",
                        format!("remainder starts at offset {} (len {}), the frame's sentinel ends at {}", ptr.wrapping_sub(base), len, frame.frame_end),
                        cj(),
                    ));
                }
            }
            judge("take_from_bytes_cobs", shape, input, &expected, r.map(|(d, _, _)| d.0), &cj)?;
            let buf = a.slice(input.len(), flush);
            if buf[frame.frame_end..] != input[frame.frame_end..] {
                return Err(fail("cobs-decode", "take_from_bytes_cobs modified bytes after the first frame", cj()));
            }
        }
        Ok(())
    })?;
    let exact_single = wellformed && frame.frame_end == input.len() && input.last() == Some(&0);
    if !exact_single {
        l.nontrivial(&(shape, input));
    }
    l.class(if !wellformed {
        "ill-formed"
    } else if frame.frame_end < input.len() {
        "bytes-after-sentinel"
    } else if input.last() != Some(&0) {
        "no-sentinel"
    } else {
        "single-frame"
    });
    l.sample(|| format!("{:?} <= {} : frame_end={} payload={:?}", shape.kind_name(), hex(&input[..input.len().min(32)]), frame.frame_end, frame.payload.as_ref().map(|p| hex(&p[..p.len().min(16)]))));
    Ok(())
}

fn judge(
    who: &str,
    shape: &Shape,
    input: &[u8],
    expected: &Option<Result<crate::dynshape::Value, DecErr>>,
    got: Result<crate::dynshape::Value, postcard::Error>,
    cj: &dyn Fn() -> Json,
) -> CaseResult {
    let _ = shape;
    match (expected, got) {
        (None, Err(postcard::Error::DeserializeBadEncoding)) => Ok(()),
        (None, other) => Err(fail(
            "cobs-decode",
            format!("{}: ill-formed COBS (a code byte points past the end of the frame) gave {:?}, expected Err(DeserializeBadEncoding); input {}", who, other, hex(input)),
            cj(),
        )),
        (Some(Ok(v)), Ok(g)) if *v == g => Ok(()),
        (Some(Err(k)), Err(e)) if *k == DecErr::UnknownVariant || classify(&e) == Some(*k) => Ok(()),
        (Some(exp), got) => Err(fail(
            "cobs-decode",
            format!("{}: got {:?}, plain decoding of the COBS-decoded first frame gives {:?}; input {}", who, got, exp, hex(input)),
            cj(),
        )),
    }
}

// ---- concrete (zero-sized and tiny) target types: the COBS entry points behave as plain decoding of the decoded payload

#[derive(serde::Serialize, serde::Deserialize, Debug, PartialEq, Clone, Copy)]
enum OnlyOne {
    Reset,
}
#[derive(serde::Serialize, serde::Deserialize, Debug, PartialEq)]
struct Marker;
#[derive(serde::Serialize, serde::Deserialize, Debug, PartialEq)]
struct Wrap(OnlyOne, std::marker::PhantomData<u32>);

fn real_case<T: serde::de::DeserializeOwned + std::fmt::Debug + PartialEq>(name: &str, input: &[u8], l: &mut Local) -> CaseResult {
    let cj = || json!({"real_cobs_type": name, "input": hex(input)});
    let frame = refcobs::decode_first_frame(input);
    l.eval();
    let mut a = input.to_vec();
    let got = no_panic(|| postcard::from_bytes_cobs::<T>(&mut a)).map_err(|p| fail("cobs-decode", format!("from_bytes_cobs::<{}> panicked: {}", name, p), cj()))?;
    let mut b = input.to_vec();
    let got_take = no_panic(|| postcard::take_from_bytes_cobs::<T>(&mut b).map(|(v, rest)| (v, rest.len())))
        .map_err(|p| fail("cobs-decode", format!("take_from_bytes_cobs::<{}> panicked: {}", name, p), cj()))?;
    let want: Option<Result<T, postcard::Error>> = frame.payload.as_ref().map(|p| postcard::from_bytes::<T>(p));
    let ok = match (&want, &got, &got_take) {
        (None, Err(postcard::Error::DeserializeBadEncoding), Err(postcard::Error::DeserializeBadEncoding)) => true,
        (Some(Ok(v)), Ok(g), Ok((g2, rest))) => v == g && v == g2 && *rest == input.len() - frame.frame_end,
        (Some(Err(_)), Err(_), Err(_)) => true,
        _ => false,
    };
    if !ok {
        return Err(fail(
            "cobs-decode",
            format!("{}: from_bytes_cobs gave {:?}, take_from_bytes_cobs {:?}; plain decoding of the COBS-decoded first frame gives {:?}; input {}", name, got, got_take, want, hex(input)),
            cj(),
        ));
    }
    l.class("real-tiny-type");
    Ok(())
}

fn real_cases(input: &[u8], l: &mut Local) -> CaseResult {
    real_case::<OnlyOne>("OnlyOne", input, l)?;
    real_case::<Marker>("Marker", input, l)?;
    real_case::<()>("()", input, l)?;
    real_case::<[OnlyOne; 2]>("[OnlyOne; 2]", input, l)?;
    real_case::<Wrap>("Wrap", input, l)?;
    real_case::<(OnlyOne, u8)>("(OnlyOne, u8)", input, l)?;
    real_case::<Option<OnlyOne>>("Option<OnlyOne>", input, l)?;
    real_case::<[u8; 0]>("[u8; 0]", input, l)?;
    real_case::<Vec<OnlyOne>>("Vec<OnlyOne>", input, l)
}

pub fn replay(case: &Json, l: &mut Local) -> CaseResult {
    if case.get("real_cobs_type").is_some() {
        return real_cases(&crate::runner::unhex(case["input"].as_str().unwrap_or("")), l);
    }
    let shape = shape_of(case);
    let input = input_of(case);
    check(&shape, &input, true, l)?;
    check(&shape, &input, false, l)
}

const ALPHA6: [u8; 6] = [0x00, 0x01, 0x02, 0x03, 0x05, 0xFF];
const ALPHA4: [u8; 4] = [0x00, 0x01, 0x02, 0xFF];

fn nth_word(mut i: u64, alpha: &[u8]) -> Vec<u8> {
    let a = alpha.len() as u64;
    let mut len = 0u32;
    loop {
        let c = a.pow(len);
        if i < c {
            break;
        }
        i -= c;
        len += 1;
    }
    (0..len)
        .map(|_| {
            let b = alpha[(i % a) as usize];
            i /= a;
            b
        })
        .collect()
}
fn count_words(alpha: usize, max: u32) -> u64 {
    (0..=max).map(|k| (alpha as u64).pow(k)).sum()
}

pub fn run(ctx: &Ctx) {
    ctx.set_rule(
        "cases: exhaustive byte strings over {00,01,02,03,05,FF}^<=7 and {00,01,02,FF}^<=9; valid frames with every single-byte \
         replacement / truncation at every position; code bytes perturbed by +-1 around the 254 boundary; random bytes; x 8 \
         target shapes x buffer flush against a guard page at either end. oracle: reference COBS decoder (definition) then \
         reference wire decoder; BadEncoding iff a code byte points past the frame; remainder begins right after the sentinel; \
         bytes after the frame untouched. non-trivial = not a single well-formed frame ending exactly at the buffer end; \
         distinct = hash(shape, input)",
    );
    ctx.assume("a stray access outside the buffer faults on the guard page and is reported by the signal handler");
    let shapes = target_shapes();
    let ns = shapes.len() as u64;
    {
        let shapes = &shapes;
        let n6 = count_words(6, ctx.tier.pick(7, 8));
        ctx.par_range("exhaustive-alphabet-6", n6 * ns, move |i, l| {
            let w = nth_word(i / ns, &ALPHA6);
            let before = l.nontrivial.len();
            let r = check(&shapes[(i % ns) as usize], &w, i % 2 == 0, l);
            if l.nontrivial.len() > before {
                l.nontrivial.clear();
                l.nontrivial_enum(1);
            }
            r
        });
        let n4 = count_words(4, ctx.tier.pick(9, 11));
        ctx.par_range("exhaustive-alphabet-4", n4 * ns, move |i, l| {
            let w = nth_word(i / ns, &ALPHA4);
            let before = l.nontrivial.len();
            let r = check(&shapes[(i % ns) as usize], &w, i % 2 == 1, l);
            if l.nontrivial.len() > before {
                l.nontrivial.clear();
                l.nontrivial_enum(1);
            }
            r
        });
    }
    {
        // concrete tiny / zero-sized targets over every input of {00,01,02,03,FF}^<=6
        const A5: [u8; 5] = [0x00, 0x01, 0x02, 0x03, 0xFF];
        let n5 = count_words(5, 6);
        ctx.par_range("tiny-real-types-exhaustive", n5, move |i, l| {
            let w = nth_word(i, &A5);
            real_cases(&w, l)?;
            l.nontrivial_enum(1);
            Ok(())
        });
    }
    ctx.exhausted("all inputs over {00,01,02,03,05,FF} of length <= 7 and over {00,01,02,FF} of length <= 9, for 8 target shapes");

    // corrupted valid frames
    let n = ctx.tier.pick(20_000, 200_000);
    ctx.par_proptest(
        "corrupted-frames",
        n,
        || {
            let shapes = target_shapes();
            (0..shapes.len(), gen::arb_bytes(600), proptest::collection::vec(any::<u8>(), 0..5)).prop_map(move |(si, msg, tail)| (shapes[si].clone(), msg, tail))
        },
        |(shape, msg, tail), l| {
            let mut f = refcobs::frame(msg);
            f.extend_from_slice(tail);
            set_pending(&case_bytes_json(shape, &f).to_string());
            check(shape, &f, true, l)?;
            let len = f.len();
            let mut buf = f.clone();
            for &i in &crate::mutate::positions(len, 48) {
                for c in [0x00u8, 0x01, f[i].wrapping_add(1), f[i].wrapping_sub(1), 0xFF, f[i] ^ 0x80] {
                    if c == f[i] {
                        continue;
                    }
                    buf[i] = c;
                    check(shape, &buf, i % 2 == 0, l)?;
                }
                buf[i] = f[i];
            }
            for &k in &crate::mutate::positions(len, 48) {
                check(shape, &f[..k], k % 2 == 0, l)?;
            }
            clear_pending();
            Ok(())
        },
    );
    // valid frames of real values of the target shapes, then corrupted
    ctx.par_proptest(
        "corrupted-value-frames",
        n,
        || {
            let shapes = target_shapes();
            (0..shapes.len()).prop_flat_map(move |si| {
                let s = shapes[si].clone();
                let vs = gen::arb_value(&s, gen::ValCfg { max_len: 300, max_seq: 4 });
                (Just(s), vs, any::<u16>(), any::<u8>())
            })
        },
        |(shape, value, pos, byte), l| {
            let e = crate::refcodec::ref_encode(shape, value).unwrap();
            let mut f = refcobs::frame(&e.bytes);
            check(shape, &f, true, l)?;
            let i = gen::pick_idx(*pos, f.len());
            f[i] = *byte;
            check(shape, &f, false, l)
        },
    );
    // long frames: zeros then a run of >= 254 non-zero bytes; frames ending right after a full
    // 0xFF block with and without sentinel; every truncation point around the block boundaries
    let nn = ctx.tier.pick(6_000, 60_000);
    ctx.par_proptest(
        "long-frames-around-full-blocks",
        nn,
        || {
            (
                proptest::collection::vec(prop_oneof![Just(0u8), Just(0u8), 1u8..=255], 0..5),
                prop_oneof![250usize..260, 505usize..512, 254usize..255, 508usize..509, 762usize..763],
                proptest::collection::vec(prop_oneof![Just(0u8), 1u8..=255], 0..4),
                0usize..3,
            )
        },
        |(pre, run, post, si), l| {
            let shapes = [Shape::ByteBuf, Shape::Seq(Box::new(Shape::U8)), Shape::Struct(Name("S"), vec![(Name("a"), Shape::Str), (Name("b"), Shape::Bytes)])];
            let shape = &shapes[*si];
            let mut payload = pre.clone();
            payload.extend(std::iter::repeat(0x51u8).take(*run));
            payload.extend_from_slice(post);
            // make the payload a plausible message for length-prefixed shapes: prefix with its varint length
            let mut msg = crate::refcodec::ref_encode(&Shape::U64, &crate::dynshape::Value::U(payload.len() as u128)).unwrap().bytes;
            msg.extend_from_slice(&payload);
            // the same message cut short by 1..3 bytes inside an intact frame
            let cut_by = 1 + payload.len() % 3;
            let short = msg[..msg.len().saturating_sub(cut_by)].to_vec();
            // and with every filler byte 0xFF / 0x01 instead (other length prefixes in the raw payload)
            let alt: Vec<u8> = payload.iter().map(|&b| if b == 0x51 { if run % 2 == 0 { 0xFF } else { 0x01 } } else { b }).collect();
            for m in [&payload, &msg, &short, &alt] {
                let f = refcobs::frame(m);
                check(shape, &f, true, l)?;
                // no sentinel
                check(shape, &f[..f.len() - 1], false, l)?;
                // cut right after each full block and one byte either side
                let enc = &f[..f.len() - 1];
                let mut i = 0;
                while i < enc.len() {
                    let code = enc[i] as usize;
                    let next = i + code;
                    for cut in [next.saturating_sub(1), next, next + 1] {
                        if cut <= enc.len() {
                            check(shape, &enc[..cut], cut % 2 == 0, l)?;
                            let mut with_tail = enc[..cut].to_vec();
                            with_tail.extend_from_slice(&[0, 2, 9, 0]);
                            check(shape, &with_tail, cut % 2 == 1, l)?;
                        }
                    }
                    i = next;
                }
            }
            Ok(())
        },
    );
    // frames of 257..1300 bytes whose first code byte equals the frame length modulo 256 (and neighbours)
    {
        ctx.par_range("first-code-vs-length-mod-256", (1300 - 257 + 1) * 3, move |i, l| {
            let want_len = 257 + (i / 3) as usize;
            let delta = (i % 3) as i64 - 1;
            let c = ((want_len % 256) as i64 + delta).rem_euclid(256) as usize;
            if c == 0 || c == 255 {
                return Ok(());
            }
            // payload: c-1 non-zero bytes, a zero, then non-zero filler (with one more zero further on); length tuned so
            // that the frame has exactly want_len bytes
            for n in (want_len.saturating_sub(10))..=want_len {
                let mut payload: Vec<u8> = (0..n).map(|k| 1 + (k % 250) as u8).collect();
                if c - 1 < n {
                    payload[c - 1] = 0;
                }
                if n > c + 300 {
                    payload[c + 299] = 0;
                }
                let mut msg = crate::refcodec::ref_encode(&Shape::U64, &crate::dynshape::Value::U(0)).unwrap().bytes;
                msg.clear();
                msg.extend_from_slice(&payload);
                let f = refcobs::frame(&msg);
                if f.len() == want_len {
                    l.class("first-code-near-length-mod-256");
                    check(&Shape::Seq(Box::new(Shape::U8)), &f, i % 2 == 0, l)?;
                    check(&Shape::ByteBuf, &f, i % 2 == 1, l)?;
                    let mut with_tail = f.clone();
                    with_tail.extend_from_slice(&[2, 5, 0]);
                    return check(&Shape::Struct(Name("S"), vec![(Name("a"), Shape::Str), (Name("b"), Shape::Bytes)]), &with_tail, true, l);
                }
            }
            Ok(())
        });
    }
    // very long frames: more than 254 full blocks (the difference between consumed and produced bytes exceeds a byte)
    {
        let lens: Vec<usize> = vec![64_515, 64_516, 64_517, 64_770, 65_024, 65_535, 65_536, 70_000, 130_000];
        let total = (lens.len() * 3 * 3) as u64;
        let lens = &lens;
        ctx.par_range("very-long-frames", total, move |i, l| {
            let i = i as usize;
            let n = lens[i % lens.len()];
            let zeros = (i / lens.len()) % 3; // 0, 1, 40 zero bytes inside
            let tail_kind = i / (lens.len() * 3);
            let mut payload: Vec<u8> = (0..n).map(|k| 1 + (k % 255) as u8).collect();
            for z in 0..[0usize, 1, 40][zeros] {
                let pos = (z * 7919 + 1000) % n;
                payload[pos] = 0;
            }
            let mut msg = crate::refcodec::ref_encode(&Shape::U64, &crate::dynshape::Value::U(payload.len() as u128)).unwrap().bytes;
            msg.extend_from_slice(&payload);
            let mut f = refcobs::frame(&msg);
            match tail_kind {
                0 => {}
                1 => f.extend_from_slice(&[3, 1, 2, 0, 9]),
                _ => {
                    f.pop();
                }
            }
            l.class("very-long-frame");
            check(&Shape::ByteBuf, &f, i % 2 == 0, l)
        });
    }
    let n = ctx.tier.pick(1_500_000, 20_000_000);
    ctx.par_proptest(
        "random-bytes",
        n,
        || {
            let shapes = target_shapes();
            (
                0..shapes.len(),
                proptest::collection::vec(prop_oneof![3 => 0u8..6, 2 => any::<u8>(), 1 => Just(0xFFu8), 1 => Just(0xFEu8)], 0..40),
                any::<bool>(),
            )
                .prop_map(move |(si, b, f)| (shapes[si].clone(), b, f))
        },
        |(s, b, f), l| check(s, b, *f, l),
    );
}
