//! C08 — the accumulator delivers every frame exactly once, however the stream is chunked.

use super::accum::*;
use crate::dynshape::{Shape, Value};
use crate::gen;
use crate::refcodec::DecErr;
use crate::runner::{fail, hex, CaseResult, Ctx, Local};
use proptest::prelude::*;
use serde_json::{json, Value as Json};

pub fn case_json(n: usize, shape: &Shape, stream: &[u8], cuts: &[usize], use_ref: bool) -> Json {
    json!({"capacity": n, "shape": shape, "stream": hex(stream), "cuts": cuts, "use_ref": use_ref})
}

/// Exact reference model of what the statement promises for streams whose segments fit.
pub fn check_history(n: usize, shape: &Shape, stream: &[u8], cuts: &[usize], use_ref: bool, l: &mut Local) -> CaseResult {
    let cj = || case_json(n, shape, stream, cuts, use_ref);
    l.eval();
    let h = drive_dyn(n, shape, stream, cuts, use_ref).map_err(|p| fail("accumulate", format!("feed panicked: {}", p), cj()))?;
    if h.skipped {
        l.skipped += 1;
        return Ok(());
    }
    if let Some(off) = h.livelock {
        return Err(fail("accumulate", format!("the documented feed loop did not terminate for the chunk starting at offset {}", off), cj()));
    }
    // expected results: one per zero byte, in order
    let mut expected: Vec<Option<Value>> = vec![];
    let mut start = 0;
    for (i, b) in stream.iter().enumerate() {
        if *b == 0 {
            match isolated(shape, &stream[start..=i]) {
                Ok(v) => expected.push(v),
                Err(DecErr::ZeroWidthSkip) => {
                    l.skipped += 1;
                    return Ok(());
                }
                Err(_) => unreachable!(),
            }
            start = i + 1;
        }
    }
    let mut model_pending: Vec<u8> = vec![];
    let mut results = 0usize;
    let mut pos = 0usize; // next stream byte the accumulator has not consumed
    for (si, st) in h.steps.iter().enumerate() {
        if !st.suffix_ok {
            return Err(fail("accumulate", format!("call {}: the returned slice is not a suffix of the chunk it was given", si), cj()));
        }
        if st.off != pos {
            return Err(fail("accumulate", format!("call {}: bytes lost, duplicated or reordered (window starts at {}, {} consumed so far)", si, st.off, pos), cj()));
        }
        let window = &stream[st.off..st.off + st.len];
        let consumed = st.len - st.rem_len;
        let zero = window.iter().position(|b| *b == 0);
        match zero {
            None => {
                if st.kind != Kind::Consumed || consumed != st.len {
                    return Err(fail("accumulate", format!("call {}: window without a zero byte gave {:?} (remainder {})", si, st.kind, st.rem_len), cj()));
                }
                model_pending.extend_from_slice(window);
            }
            Some(z) => {
                if consumed != z + 1 {
                    return Err(fail("accumulate", format!("call {}: consumed {} bytes, the first sentinel is at {}", si, consumed, z), cj()));
                }
                let want = &expected[results];
                match (st.kind, want) {
                    (Kind::Success, Some(v)) if st.value.as_ref() == Some(v) => {}
                    (Kind::DeserError, None) => {}
                    _ => {
                        return Err(fail(
                            "accumulate",
                            format!("result {} (call {}): got {:?} {:?}, decoding the segment in isolation gives {:?}", results, si, st.kind, st.value, want),
                            cj(),
                        ))
                    }
                }
                results += 1;
                model_pending.clear();
            }
        }
        pos += consumed;
        if st.buffered != model_pending {
            return Err(fail(
                "accumulate",
                format!("call {}: accumulator holds {} but the bytes since the last sentinel are {}", si, hex(&st.buffered), hex(&model_pending)),
                cj(),
            ));
        }
        if !st.borrows_inside {
            return Err(fail("accumulate", format!("call {}: borrowed data does not point into the accumulator", si), cj()));
        }
    }
    if pos != stream.len() {
        return Err(fail("accumulate", format!("only {} of {} stream bytes were consumed", pos, stream.len()), cj()));
    }
    if results != expected.len() {
        return Err(fail("accumulate", format!("{} results for {} zero bytes", results, expected.len()), cj()));
    }
    // non-trivial: >= 2 chunks and (a boundary strictly inside a frame or a chunk with >= 2 sentinels)
    let mut bounds = vec![0];
    bounds.extend_from_slice(cuts);
    bounds.push(stream.len());
    let inside = cuts.iter().any(|c| *c > 0 && *c < stream.len() && stream[*c - 1] != 0);
    let multi = bounds.windows(2).any(|w| stream[w[0]..w[1]].iter().filter(|b| **b == 0).count() >= 2);
    if cuts.len() >= 1 && (inside || multi) {
        l.nontrivial(&(n, shape, stream, cuts, use_ref));
        if inside {
            l.class("cut-inside-frame");
        }
        if multi {
            l.class("chunk-with-2+-sentinels");
        }
    }
    l.class_n("results-success", expected.iter().filter(|e| e.is_some()).count() as u64);
    l.class_n("results-deser-error", expected.iter().filter(|e| e.is_none()).count() as u64);
    if use_ref {
        l.class("feed_ref");
    }
    l.sample(|| format!("N={} {:?} stream={} cuts={:?} -> {:?}", n, shape.kind_name(), hex(stream), cuts, h.steps.iter().map(|s| s.kind).collect::<Vec<_>>()));
    Ok(())
}

pub fn replay(case: &Json, l: &mut Local) -> CaseResult {
    let shape: Shape = serde_json::from_value(case["shape"].clone()).unwrap();
    let stream = crate::runner::unhex(case["stream"].as_str().unwrap());
    let cuts: Vec<usize> = serde_json::from_value(case["cuts"].clone()).unwrap();
    check_history(case["capacity"].as_u64().unwrap() as usize, &shape, &stream, &cuts, case["use_ref"].as_bool().unwrap_or(false), l)
}

pub fn arb_fit_stream(max_segs: usize) -> BoxedStrategy<(usize, Shape, Vec<u8>)> {
    let shapes = target_shapes();
    (0..CAPS.len(), 0..shapes.len())
        .prop_flat_map(move |(ci, si)| {
            let shape = shapes[si].clone();
            let n = CAPS[ci];
            let segs = proptest::collection::vec(arb_seg(&shape, false), 0..=max_segs);
            (Just(n), Just(shape), segs)
        })
        .prop_map(|(n, shape, segs)| {
            let stream = build_stream(&shape, &segs, Some(n));
            (n, shape, stream)
        })
        .boxed()
}

pub fn run(ctx: &Ctx) {
    ctx.set_rule(
        "cases: streams = concatenations of {valid frame, frame with one byte corrupted, empty frame, garbage+0, unterminated tail} \
         of 10 target types (owned and buffer-borrowing) with every segment fitting the capacity, capacities {1,2,3,4,5,6,8,13,16, \
         32,64,256}, feed and feed_ref; chunkings: every one of the 2^(L-1) compositions for short streams, every (i,j) pair of \
         cuts for longer ones, random compositions. oracle after every call: returned slice is a suffix of the window, hook \
         buffered bytes == bytes since the last sentinel, Consumed iff no zero byte; over the history: one result per zero byte, \
         in order, equal to decoding the segment in isolation (reference COBS + reference decoder). non-trivial = >= 2 chunks with \
         a cut strictly inside a frame or a chunk holding >= 2 sentinels; distinct = hash(capacity, type, stream, cuts)",
    );
    ctx.assume("the isolated-segment oracle is reference COBS decoding followed by the reference wire decoder (trailing payload bytes ignored, as from_bytes does)");
    // (a) all chunkings of short streams
    let lmax = ctx.tier.pick(12usize, 16);
    let n = ctx.tier.pick(8_000, 40_000);
    ctx.par_proptest(
        "all-chunkings-short-streams",
        n,
        || (arb_fit_stream(4), any::<bool>()),
        |((n, shape, stream), use_ref), l| {
            let s = &stream[..stream.len().min(lmax)];
            // truncation may cut a frame: the tail is then an unterminated segment that still fits
            let len = s.len();
            if len == 0 {
                return check_history(*n, shape, s, &[], *use_ref, l);
            }
            for mask in 0..(1u64 << (len - 1)) {
                check_history(*n, shape, s, &cuts_from_mask(len, mask), *use_ref, l)?;
            }
            Ok(())
        },
    );
    // (b) every pair of cut points for longer streams
    let n = ctx.tier.pick(10_000, 100_000);
    ctx.par_proptest(
        "all-cut-pairs",
        n,
        || (arb_fit_stream(6), any::<bool>()),
        |((n, shape, stream), use_ref), l| {
            let len = stream.len().min(48);
            let s = &stream[..len];
            for i in 1..len {
                check_history(*n, shape, s, &[i], *use_ref, l)?;
                for j in i + 1..len {
                    check_history(*n, shape, s, &[i, j], *use_ref, l)?;
                }
            }
            Ok(())
        },
    );
    // (c) random compositions of long streams
    let n = ctx.tier.pick(600_000, 6_000_000);
    ctx.par_proptest(
        "random-chunkings",
        n,
        || {
            (arb_fit_stream(12), any::<bool>()).prop_flat_map(|((n, shape, stream), r)| {
                let cuts = arb_cuts(stream.len());
                (Just((n, shape, stream)), cuts, Just(r))
            })
        },
        |((n, shape, stream), cuts, use_ref), l| check_history(*n, shape, stream, cuts, *use_ref, l),
    );
    // long frames (beyond 256 bytes) on large capacities; segments longer than the capacity are
    // outside this property, so only streams whose segments fit are used
    let n = ctx.tier.pick(40_000, 400_000);
    // frames carrying many-element values and very large blobs (capacities 8192 / 90000), whole and in 1-2 cuts
    ctx.par_proptest(
        "big-value-frames",
        ctx.tier.pick(1_500, 20_000),
        || {
            (arb_big_value_stream(), any::<bool>(), proptest::collection::vec(any::<u32>(), 0..3)).prop_map(|((n, shape, stream), r, raw)| {
                let mut cuts: Vec<usize> = raw.iter().map(|x| 1 + (*x as usize) % stream.len().max(2).saturating_sub(1)).collect();
                cuts.sort();
                cuts.dedup();
                ((n, shape, stream), cuts, r)
            })
        },
        |((n, shape, stream), cuts, use_ref), l| {
            // this property is about streams whose segments fit the capacity
            if !stream.split(|b| *b == 0).all(|seg| seg.len() + 1 <= *n) {
                return Ok(());
            }
            l.class("big-value-frame");
            check_history(*n, shape, stream, cuts, *use_ref, l)
        },
    );
    ctx.par_proptest(
        "long-frames",
        n,
        || {
            (arb_long_frame_stream(), any::<bool>()).prop_flat_map(|((n, shape, stream), r)| {
                let cuts = prop_oneof![Just(vec![]), arb_cuts(stream.len())];
                (Just((n, shape, stream)), cuts, Just(r))
            })
        },
        |((n, shape, stream), cuts, use_ref), l| {
            let fits = stream.split(|b| *b == 0).all(|seg| seg.len() + 1 <= *n);
            if !fits {
                return Ok(());
            }
            check_history(*n, shape, stream, cuts, *use_ref, l)
        },
    );
    let _ = gen::pick_idx;
}
