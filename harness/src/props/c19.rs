//! C19 — schema inspection helpers are total and faithful for every schema.

use crate::runner::{fail, no_panic, panic_site, CaseResult, Ctx, Local};
use crate::schematree::{self, TData, Tree, TreeCfg};
use postcard_schema::schema::owned::OwnedDataModelType;
use serde_json::{json, Value as Json};
use std::collections::HashSet;

/// the schema itself and every schema nested anywhere inside it, as neutral trees (compared with the harness' own
/// equality and hashing, not with the `Eq` / `Hash` impls of the types under test)
fn reference_set(t: &Tree, out: &mut HashSet<Tree>) {
    out.insert(t.clone());
    for c in t.children() {
        reference_set(c, out);
    }
}

pub fn check(tree: &Tree, l: &mut Local) -> CaseResult {
    let cj = || json!({"tree": tree});
    let owned = schematree::to_owned_expected(tree);
    l.eval();
    let pseudo = no_panic(|| owned.to_pseudocode()).map_err(|p| fail("inspect", format!("to_pseudocode panicked: {}", p), cj()).sig(format!("panic:{}", panic_site(&p))))?;
    let disp = no_panic(|| format!("{}", owned)).map_err(|p| fail("inspect", format!("Display panicked: {}", p), cj()).sig(format!("panic:{}", panic_site(&p))))?;
    if pseudo == disp {
        l.class("display-equals-pseudocode");
    }
    let used = no_panic(|| owned.all_used_types()).map_err(|p| fail("inspect", format!("all_used_types panicked: {}", p), cj()).sig(format!("panic:{}", panic_site(&p))))?;
    let mut want: HashSet<Tree> = HashSet::new();
    reference_set(tree, &mut want);
    let used_trees: HashSet<Tree> = used.iter().map(schematree::from_owned).collect();
    if used_trees != want || used.len() != want.len() {
        let missing: Vec<_> = want.difference(&used_trees).take(3).collect();
        let extra: Vec<_> = used_trees.difference(&want).take(3).collect();
        return Err(fail(
            "inspect",
            format!(
                "all_used_types: {} types ({} structurally distinct), reference walk finds {}; missing {:?}; unexpected {:?}",
                used.len(),
                used_trees.len(),
                want.len(),
                missing,
                extra
            ),
            cj(),
        ));
    }
    // a top-level struct/enum mentions its name and each field / variant name
    let mut names: Vec<&str> = vec![];
    match tree {
        Tree::Struct(n, d) => {
            names.push(n);
            if let TData::Struct(fs) = d {
                names.extend(fs.iter().map(|(n, _)| n.as_str()));
            }
        }
        Tree::Enum(n, vs) => {
            names.push(n);
            for (vn, d) in vs {
                names.push(vn);
                if let TData::Struct(fs) = d {
                    names.extend(fs.iter().map(|(n, _)| n.as_str()));
                }
            }
        }
        _ => {}
    }
    for n in &names {
        for rendering in [&pseudo, &disp] {
            if !rendering.contains(n) {
                return Err(fail("inspect", format!("rendering {:?} does not mention {:?}", rendering, n), cj()));
            }
        }
    }
    let mut kinds = std::collections::BTreeSet::new();
    tree.visit_kinds(&mut |k| {
        kinds.insert(k);
    });
    for k in &kinds {
        l.class(k);
    }
    if tree.has_named() && tree.depth() >= 2 {
        l.nontrivial(tree);
    }
    l.sample(|| format!("{}  [{} used types]", pseudo, used.len()));
    Ok(())
}

pub fn replay(case: &Json, l: &mut Local) -> CaseResult {
    let tree: Tree = serde_json::from_value(case["tree"].clone()).map_err(|e| fail("inspect", format!("bad replay: {}", e), case.clone()))?;
    check(&tree, l)
}

pub fn run(ctx: &Ctx) {
    ctx.set_rule(
        "cases: random owned schema trees over every kind incl. Usize/Isize/Schema, deep chains (<= 200) and wide nodes (<= 200), names \
         incl. empty / multi-byte / 100-300 bytes; corpus schemas. oracle: to_pseudocode, Display, all_used_types return without \
         panic; all_used_types == the reference set (the schema itself plus every DataModelType-level descendant, nothing else) from \
         the harness's own walk; a top-level struct/enum rendering contains its name and every field and variant name. non-trivial = \
         tree with a named node and depth >= 2; distinct = hash(tree); per-kind hit counts in 'classes'",
    );
    let n = ctx.tier.pick(400_000, 4_000_000);
    ctx.par_proptest("random-trees", n, || schematree::arb_tree(TreeCfg::default()), |t, l| check(t, l));
    ctx.par_proptest("same-name-neighbours", n / 8, || schematree::arb_same_name_neighbours(), |t, l| {
        l.class("same-name-neighbours");
        check(t, l)
    });
    // top-level enums of every width 0..=70 (layout of long variant lists) with unit / struct variants
    ctx.par_range("enum-widths", 71 * 2, |i, l| {
        let w = (i % 71) as usize;
        let structs = i >= 71;
        let t = Tree::Enum(
            "Wide".into(),
            (0..w)
                .map(|v| (format!("Var{}_", v), if structs && v % 3 == 2 { TData::Struct(vec![(format!("fld{}_", v), Tree::U8)]) } else { TData::Unit }))
                .collect(),
        );
        check(&t, l)
    });
    let n = ctx.tier.pick(30_000, 300_000);
    ctx.par_proptest("deep-and-wide", n, || schematree::arb_deep_or_wide(200, 200), |t, l| check(t, l));
    let n = ctx.tier.pick(60_000, 600_000);
    ctx.par_proptest(
        "same-shape-different-name-pairs",
        n,
        || schematree::arb_same_shape_pair(TreeCfg { depth: 3, width: 4, exotic: true }),
        |t, l| check(t, l),
    );
    let n = ctx.tier.pick(20_000, 200_000);
    ctx.par_proptest(
        "array-then-new-types",
        n,
        || schematree::arb_array_then_types(TreeCfg { depth: 3, width: 4, exotic: true }),
        |t, l| check(t, l),
    );
    super::corpus_checks::c19(ctx);
}
