//! Helpers shared by the property modules: drive every public entry point with a
//! (Shape, Value) pair.

use crate::dynshape::{with_shape, DecodeLog, Dyn, Shape, Typed, Value};
use crate::runner::{hex, no_panic};
use serde_json::{json, Value as Json};
use std::collections::VecDeque;

pub fn self_test_codec() -> Result<(), String> {
    crate::refcodec::self_test()?;
    crate::refcobs::self_test()?;
    crate::refcrc::self_test()?;
    self_test_adapters()?;
    Ok(())
}

/// The harness's serde adapters are kept honest by an independent path: what `Typed(shape, value)`
/// hands to a recording serializer must convert back to exactly `value` under `shape`, and the
/// reference decoder must invert the reference encoder. (A failure is a harness defect: exit 2.)
pub fn self_test_adapters() -> Result<(), String> {
    use crate::gen::{arb_typed, ShapeCfg, ValCfg};
    use proptest::strategy::{Strategy, ValueTree};
    use proptest::test_runner::{Config, RngAlgorithm, TestRng, TestRunner};
    let rng = TestRng::from_seed(RngAlgorithm::ChaCha, &[7u8; 32]);
    let mut runner = TestRunner::new_with_rng(Config::default(), rng);
    let strat = arb_typed(ShapeCfg::default(), ValCfg { max_len: 40, max_seq: 3 });
    for _ in 0..400 {
        let (shape, value) = strat.new_tree(&mut runner).map_err(|e| e.to_string())?.current();
        let call = crate::record::record(&Typed(&shape, &value)).map_err(|e| format!("adapter self-test: recording failed: {}", e.0))?;
        let back = crate::record_value::call_to_value(&call, &shape).map_err(|e| format!("adapter self-test: {} for {:?}", e, shape))?;
        if back != value {
            return Err(format!("adapter self-test: {:?} was handed to serde as {:?}", value, back));
        }
        let e = crate::refcodec::ref_encode(&shape, &value).map_err(|_| "adapter self-test: reference encoder refused".to_string())?;
        match crate::refcodec::ref_decode(&shape, &e.bytes) {
            Ok(d) if d.value == value && d.consumed == e.bytes.len() => {}
            Err(crate::refcodec::DecErr::ZeroWidthSkip) => {}
            other => return Err(format!("reference codec self-test: {:?} -> {:?}", value, other.map(|d| d.value))),
        }
    }
    Ok(())
}

pub fn self_test_schema() -> Result<(), String> {
    crate::schematree::self_test()
}

pub fn case_json(shape: &Shape, value: &Value) -> Json {
    json!({"shape": shape, "value": value})
}

pub fn case_bytes_json(shape: &Shape, input: &[u8]) -> Json {
    json!({"shape": shape, "input": hex(input)})
}

pub fn shape_of(case: &Json) -> Shape {
    serde_json::from_value(case["shape"].clone()).expect("replay: bad shape")
}
pub fn value_of(case: &Json) -> Value {
    serde_json::from_value(case["value"].clone()).expect("replay: bad value")
}
pub fn input_of(case: &Json) -> Vec<u8> {
    crate::runner::unhex(case["input"].as_str().expect("replay: no input"))
}

pub type PcResult<T> = Result<T, postcard::Error>;

/// A minimal embedded-io writer over a Vec (independent of embedded-io's alloc feature).
pub struct EioVec(pub Vec<u8>);
impl embedded_io::ErrorType for EioVec {
    type Error = core::convert::Infallible;
}
impl embedded_io::Write for EioVec {
    fn write(&mut self, buf: &[u8]) -> Result<usize, Self::Error> {
        self.0.extend_from_slice(buf);
        Ok(buf.len())
    }
    fn flush(&mut self) -> Result<(), Self::Error> {
        Ok(())
    }
}

/// Every plain encoder entry point. Each returns the produced bytes or the error.
pub fn encode_all(shape: &Shape, value: &Value, expect_len: usize) -> Result<Vec<(&'static str, PcResult<Vec<u8>>)>, String> {
    let t = Typed(shape, value);
    let mut out: Vec<(&'static str, PcResult<Vec<u8>>)> = vec![];
    out.push(("to_allocvec", no_panic(|| postcard::to_allocvec(&t))?));
    out.push(("to_stdvec", no_panic(|| postcard::to_stdvec(&t))?));
    out.push((
        "to_slice",
        no_panic(|| {
            let mut buf = vec![0xA5u8; expect_len + 8];
            postcard::to_slice(&t, &mut buf).map(|s| s.to_vec())
        })?,
    ));
    if expect_len <= 1024 {
        out.push((
            "to_vec<1024>",
            no_panic(|| postcard::to_vec::<_, 1024>(&t).map(|v| v.to_vec()))?,
        ));
    }
    out.push(("to_extend<Vec>", no_panic(|| postcard::to_extend(&t, Vec::<u8>::new()))?));
    out.push((
        "to_extend<VecDeque>",
        no_panic(|| postcard::to_extend(&t, VecDeque::<u8>::new()).map(|d| d.into_iter().collect()))?,
    ));
    out.push(("to_io", no_panic(|| postcard::to_io(&t, Vec::<u8>::new()))?));
    out.push(("to_eio", no_panic(|| postcard::to_eio(&t, EioVec(vec![])).map(|w| w.0))?));
    out.push((
        "serialize_with_flavor<AllocVec>",
        no_panic(|| postcard::serialize_with_flavor(&t, postcard::ser_flavors::AllocVec::new()))?,
    ));
    Ok(out)
}

pub struct Decoded {
    pub name: &'static str,
    pub result: PcResult<Value>,
    /// bytes consumed from the input, when the entry point reports it
    pub consumed: Option<usize>,
    /// remainder pointer identity holds (take_from_bytes) / not applicable
    pub remainder_ok: bool,
    pub log: DecodeLog,
}

/// Every plain decoder entry point on `input`.
pub fn decode_all(shape: &Shape, input: &[u8]) -> Result<Vec<Decoded>, String> {
    let mut out = vec![];
    // from_bytes
    let (r, log) = with_shape(shape, || no_panic(|| postcard::from_bytes::<Dyn>(input)));
    out.push(Decoded {
        name: "from_bytes",
        result: r?.map(|d| d.0),
        consumed: None,
        remainder_ok: true,
        log,
    });
    // take_from_bytes
    let (r, log) = with_shape(shape, || no_panic(|| postcard::take_from_bytes::<Dyn>(input)));
    let r = r?;
    let (consumed, remainder_ok) = match &r {
        Ok((_, rem)) => {
            let c = input.len() - rem.len();
            (Some(c), rem.is_empty() || rem.as_ptr() == input[c..].as_ptr())
        }
        Err(_) => (None, true),
    };
    out.push(Decoded {
        name: "take_from_bytes",
        result: r.map(|(d, _)| d.0),
        consumed,
        remainder_ok,
        log,
    });
    // from_io with a plain slice reader and roomy scratch
    let mut scratch = vec![0u8; input.len() + 16];
    let (r, log) = with_shape(shape, || {
        no_panic(|| {
            let rd: &[u8] = input;
            postcard::from_io::<Dyn, _>((rd, &mut scratch[..])).map(|(d, (rest, _))| (d, rest.len()))
        })
    });
    let r = r?;
    let consumed = r.as_ref().ok().map(|(_, rest)| input.len() - rest);
    out.push(Decoded {
        name: "from_io",
        result: r.map(|(d, _)| d.0),
        consumed,
        remainder_ok: true,
        log,
    });
    // from_io with a reader that delivers 1-3 bytes per call and answers every other call with Interrupted first
    // (std::io convention: Interrupted is not an error, the read is simply repeated)
    {
        let mut scratch = vec![0u8; input.len() + 16];
        let rd = crate::iodoubles::SharedReader::new(crate::iodoubles::ChunkReader::new(
            input,
            crate::iodoubles::Schedule { chunks: vec![1, 3, 2], interrupt_every: 2 },
            crate::iodoubles::Fault::None,
        ));
        let (r, log) = with_shape(shape, || no_panic(|| postcard::from_io::<Dyn, _>((rd.clone(), &mut scratch[..])).map(|(d, _)| d)));
        let r = r?;
        let consumed = r.as_ref().ok().map(|_| rd.pos());
        out.push(Decoded {
            name: "from_io(short reads, Interrupted)",
            result: r.map(|d| d.0),
            consumed,
            remainder_ok: true,
            log,
        });
    }
    // from_io with a scratch buffer of exactly the size this message routes through it
    if let Ok(d) = crate::refcodec::ref_decode(shape, input) {
        let exact = scratch_need(shape, &d.value);
        let mut scratch = vec![0u8; exact];
        let (r, log) = with_shape(shape, || {
            no_panic(|| {
                let rd: &[u8] = input;
                postcard::from_io::<Dyn, _>((rd, &mut scratch[..])).map(|(d, (rest, s))| (d, rest.len(), s.len()))
            })
        });
        let r = r?;
        let consumed = r.as_ref().ok().map(|(_, rest, _)| input.len() - rest);
        out.push(Decoded {
            name: "from_io(exact scratch)",
            result: r.map(|(d, _, _)| d.0),
            consumed,
            remainder_ok: true,
            log,
        });
    }
    // from_eio
    let mut scratch = vec![0u8; input.len() + 16];
    let (r, log) = with_shape(shape, || {
        no_panic(|| {
            let rd: &[u8] = input;
            postcard::from_eio::<Dyn, _>((rd, &mut scratch[..])).map(|(d, (rest, _))| (d, rest.len()))
        })
    });
    let r = r?;
    let consumed = r.as_ref().ok().map(|(_, rest)| input.len() - rest);
    out.push(Decoded {
        name: "from_eio",
        result: r.map(|(d, _)| d.0),
        consumed,
        remainder_ok: true,
        log,
    });
    Ok(out)
}

/// bytes of `value` that the reader-based decoder routes through the scratch buffer: str / bytes
/// payloads, floats, chars
pub fn scratch_need(shape: &Shape, value: &Value) -> usize {
    use crate::dynshape::VKind;
    fn walk(s: &Shape, v: &Value, acc: &mut usize) {
        match (s, v) {
            (Shape::F32, _) => *acc += 4,
            (Shape::F64, _) => *acc += 8,
            (Shape::Char, Value::Char(c)) => *acc += c.len_utf8(),
            (Shape::Str | Shape::String, Value::Str(x)) => *acc += x.len(),
            (Shape::Bytes | Shape::ByteBuf, Value::Bytes(x)) => *acc += x.len(),
            (Shape::Option(i), Value::Some(x)) => walk(i, x, acc),
            (Shape::Newtype(_, i), Value::Newtype(x)) => walk(i, x, acc),
            (Shape::Seq(i), Value::List(xs)) => xs.iter().for_each(|x| walk(i, x, acc)),
            (Shape::Tuple(ss) | Shape::TupleStruct(_, ss), Value::List(xs)) => ss.iter().zip(xs).for_each(|(s, x)| walk(s, x, acc)),
            (Shape::Struct(_, fs), Value::List(xs)) => fs.iter().zip(xs).for_each(|((_, s), x)| walk(s, x, acc)),
            (Shape::Map(k, vv), Value::Map(ps)) => ps.iter().for_each(|(a, b)| {
                walk(k, a, acc);
                walk(vv, b, acc)
            }),
            (Shape::Enum(_, vs), Value::Variant(pos, p)) => match (&vs[*pos].kind, &**p) {
                (VKind::Newtype(i), x) => walk(i, x, acc),
                (VKind::Tuple(ss), Value::List(xs)) => ss.iter().zip(xs).for_each(|(s, x)| walk(s, x, acc)),
                (VKind::Struct(fs), Value::List(xs)) => fs.iter().zip(xs).for_each(|((_, s), x)| walk(s, x, acc)),
                _ => {}
            },
            _ => {}
        }
    }
    let mut acc = 0;
    walk(shape, value, &mut acc);
    acc
}

/// postcard is a compact binary format: both directions must report `is_human_readable() ==
/// false`, and types that pick their representation by that flag must use the compact one
/// (std::net addresses as raw octets), through every entry point.
/// Which side of the human-readable flag a property speaks about.
#[derive(Clone, Copy, PartialEq)]
pub enum HrMode {
    /// C01: both sides agree (whatever the value), flag-dependent std types round-trip
    RoundTrip,
    /// C02: the encoder is a compact binary format (flag false, compact forms on the wire)
    Encoder,
    /// C03: the decoder is one (flag false on every entry point, compact forms decode)
    Decoder,
}

pub fn check_human_readable_flag_c01(l: &mut crate::runner::Local) -> crate::runner::CaseResult {
    check_human_readable_flag(HrMode::RoundTrip, l)
}
pub fn check_human_readable_flag_c02(l: &mut crate::runner::Local) -> crate::runner::CaseResult {
    check_human_readable_flag(HrMode::Encoder, l)
}
pub fn check_human_readable_flag_c03(l: &mut crate::runner::Local) -> crate::runner::CaseResult {
    check_human_readable_flag(HrMode::Decoder, l)
}

pub fn check_human_readable_flag(mode: HrMode, l: &mut crate::runner::Local) -> crate::runner::CaseResult {
    use crate::dynshape::HrProbe;
    use crate::runner::fail;
    use std::net::{IpAddr, Ipv4Addr, Ipv6Addr, SocketAddrV4};
    let cj = || serde_json::json!({"probe": "human-readable"});
    l.eval();
    // HrProbe serialises the flag it is shown as a bool and deserialises to the flag it is shown
    let b = postcard::to_allocvec(&HrProbe(false)).map_err(|e| fail("hr-flag", format!("{:?}", e), cj()))?;
    let mut buf = [0u8; 4];
    let b2 = postcard::to_slice(&HrProbe(false), &mut buf).map(|s| s.to_vec());
    let ser_flag = b == [1];
    if b2 != Ok(b.clone()) {
        return Err(fail("hr-flag", "to_slice and to_allocvec serializers report different is_human_readable() values", cj()));
    }
    if mode == HrMode::Encoder && ser_flag {
        return Err(fail("hr-flag", "the serializer reports is_human_readable() == true", cj()));
    }
    if mode != HrMode::Encoder {
        for (name, got) in [
            ("from_bytes", postcard::from_bytes::<HrProbe>(&[1]).map(|p| p.0)),
            ("take_from_bytes", postcard::take_from_bytes::<HrProbe>(&[1, 9]).map(|(p, _)| p.0)),
            ("from_io", postcard::from_io::<HrProbe, _>((&[1u8][..], &mut [0u8; 4][..])).map(|(p, _)| p.0)),
            ("from_eio", postcard::from_eio::<HrProbe, _>((&[1u8][..], &mut [0u8; 4][..])).map(|(p, _)| p.0)),
            ("from_bytes_cobs", postcard::from_bytes_cobs::<HrProbe>(&mut [2u8, 1, 0]).map(|p| p.0)),
        ] {
            l.eval();
            let want = if mode == HrMode::RoundTrip { ser_flag } else { false };
            if got != Ok(want) {
                return Err(fail(
                    "hr-flag",
                    format!("{}: the deserializer reports is_human_readable() = {:?}{}", name, got, if mode == HrMode::RoundTrip { format!(", the serializer reports {}", ser_flag) } else { String::new() }),
                    cj(),
                ));
            }
        }
    }
    // representation-by-flag types
    let v4 = Ipv4Addr::new(127, 0, 0, 1);
    let bytes = postcard::to_allocvec(&v4).map_err(|e| fail("hr-flag", format!("{:?}", e), cj()))?;
    if mode == HrMode::Encoder && bytes != [127, 0, 0, 1] {
        return Err(fail("hr-flag", format!("Ipv4Addr 127.0.0.1 encodes as {:?}, compact form is [127,0,0,1]", bytes), cj()));
    }
    if mode == HrMode::Decoder && postcard::from_bytes::<Ipv4Addr>(&[127, 0, 0, 1]) != Ok(v4) {
        return Err(fail("hr-flag", "Ipv4Addr does not decode from its compact form", cj()));
    }
    if mode == HrMode::RoundTrip {
        if postcard::from_bytes::<Ipv4Addr>(&bytes) != Ok(v4) {
            return Err(fail("hr-flag", format!("Ipv4Addr 127.0.0.1 encodes as {:?} and decodes as {:?}", bytes, postcard::from_bytes::<Ipv4Addr>(&bytes)), cj()));
        }
        let vals: Vec<IpAddr> = vec![IpAddr::V4(v4), IpAddr::V6(Ipv6Addr::LOCALHOST), IpAddr::V6(Ipv6Addr::new(0x2001, 0xdb8, 0, 0, 0, 0xff00, 0x42, 0x8329))];
        for v in vals {
            l.eval();
            let b = postcard::to_allocvec(&v).map_err(|e| fail("hr-flag", format!("{:?}", e), cj()))?;
            if postcard::from_bytes::<IpAddr>(&b) != Ok(v) {
                return Err(fail("hr-flag", format!("IpAddr {} encodes to {:?} and decodes as {:?}", v, b, postcard::from_bytes::<IpAddr>(&b)), cj()));
            }
        }
        let sa = SocketAddrV4::new(Ipv4Addr::new(10, 0, 0, 7), 8080);
        let b = postcard::to_allocvec(&sa).map_err(|e| fail("hr-flag", format!("{:?}", e), cj()))?;
        if postcard::from_bytes::<SocketAddrV4>(&b) != Ok(sa) {
            return Err(fail("hr-flag", format!("SocketAddrV4 encodes as {:?} / does not round-trip", b), cj()));
        }
    }
    l.nontrivial(&("hr-flag", 1u8));
    l.nontrivial(&("hr-flag", 2u8));
    Ok(())
}
