//! Shared driver for the accumulator properties C08 / C09: runs the documented feed loop over
//! a chunked stream and records a history.

use crate::dynshape::{with_shape, Dyn, Name, Shape, Value};
use crate::gen;
use crate::refcobs;
use crate::refcodec::{ref_decode, ref_encode, DecErr};
use crate::runner::no_panic;
use postcard::accumulator::{CobsAccumulator, FeedResult};
use proptest::prelude::*;
use serde::{Deserialize, Serialize};

pub const CAPS: &[usize] = &[1, 2, 3, 4, 5, 6, 8, 13, 16, 32, 64, 256];
/// additional large capacities used by the long-frame families
pub const BIG_CAPS: &[usize] = &[512, 1024];

#[derive(Clone, Copy, Debug, PartialEq, Eq, Serialize, Deserialize)]
pub enum Kind {
    Consumed,
    OverFull,
    DeserError,
    Success,
}

#[derive(Clone, Debug)]
pub struct Step {
    /// absolute stream offset of the window given to this call
    pub off: usize,
    pub len: usize,
    pub kind: Kind,
    pub value: Option<Value>,
    /// length of the returned remainder (0 for Consumed)
    pub rem_len: usize,
    /// the returned slice is a suffix of the window (pointer identity)
    pub suffix_ok: bool,
    /// hook: buffered bytes after the call
    pub buffered: Vec<u8>,
    /// every borrowed str/bytes handed out during this call pointed into the accumulator
    pub borrows_inside: bool,
    pub n_borrows: usize,
}

#[derive(Clone, Debug)]
pub struct History {
    pub steps: Vec<Step>,
    /// the feed loop for some chunk exceeded its iteration bound
    pub livelock: Option<usize>,
    pub skipped: bool,
}

fn drive<const N: usize>(shape: &Shape, stream: &[u8], cuts: &[usize], use_ref: bool) -> Result<History, String> {
    let (r, _) = with_shape(shape, || {
        no_panic(|| {
            let mut acc: CobsAccumulator<N> = CobsAccumulator::new();
            let acc_lo = &acc as *const _ as usize;
            let acc_hi = acc_lo + std::mem::size_of::<CobsAccumulator<N>>();
            let mut steps = vec![];
            let mut livelock = None;
            let mut skipped = false;
            let mut bounds = vec![0usize];
            bounds.extend_from_slice(cuts);
            bounds.push(stream.len());
            'chunks: for w in bounds.windows(2) {
                let chunk = &stream[w[0]..w[1]];
                let mut window = chunk;
                let mut iters = 0usize;
                while !window.is_empty() {
                    iters += 1;
                    if iters > 2 * chunk.len() + 2 {
                        livelock = Some(w[0]);
                        break 'chunks;
                    }
                    let off = w[0] + (chunk.len() - window.len());
                    crate::dynshape::reset_log();
                    let res: FeedResult<'_, Dyn> = if use_ref { acc.feed_ref::<Dyn>(window) } else { acc.feed::<Dyn>(window) };
                    let log = crate::dynshape::take_log();
                    if log.skipped_zero_width {
                        skipped = true;
                        break 'chunks;
                    }
                    let (kind, value, rem): (Kind, Option<Value>, Option<&[u8]>) = match res {
                        FeedResult::Consumed => (Kind::Consumed, None, None),
                        FeedResult::OverFull(r) => (Kind::OverFull, None, Some(r)),
                        FeedResult::DeserError(r) => (Kind::DeserError, None, Some(r)),
                        FeedResult::Success { data, remaining } => (Kind::Success, Some(data.0), Some(remaining)),
                    };
                    let (rem_len, suffix_ok) = match rem {
                        None => (0, true),
                        Some(r) => (
                            r.len(),
                            r.len() <= window.len() && (r.is_empty() || r.as_ptr() == window[window.len() - r.len()..].as_ptr()),
                        ),
                    };
                    let borrows_inside = log.borrows.iter().all(|(p, n)| *n == 0 || (*p >= acc_lo && p + n <= acc_hi));
                    steps.push(Step {
                        off,
                        len: window.len(),
                        kind,
                        value,
                        rem_len,
                        suffix_ok,
                        buffered: acc.verif_buffered().to_vec(),
                        borrows_inside,
                        n_borrows: log.borrows.len(),
                    });
                    match rem {
                        None => break,
                        Some(r) => window = r,
                    }
                }
            }
            History { steps, livelock, skipped }
        })
    });
    r
}

pub fn drive_dyn(n: usize, shape: &Shape, stream: &[u8], cuts: &[usize], use_ref: bool) -> Result<History, String> {
    match n {
        1 => drive::<1>(shape, stream, cuts, use_ref),
        2 => drive::<2>(shape, stream, cuts, use_ref),
        3 => drive::<3>(shape, stream, cuts, use_ref),
        4 => drive::<4>(shape, stream, cuts, use_ref),
        5 => drive::<5>(shape, stream, cuts, use_ref),
        6 => drive::<6>(shape, stream, cuts, use_ref),
        8 => drive::<8>(shape, stream, cuts, use_ref),
        13 => drive::<13>(shape, stream, cuts, use_ref),
        16 => drive::<16>(shape, stream, cuts, use_ref),
        32 => drive::<32>(shape, stream, cuts, use_ref),
        64 => drive::<64>(shape, stream, cuts, use_ref),
        256 => drive::<256>(shape, stream, cuts, use_ref),
        512 => drive::<512>(shape, stream, cuts, use_ref),
        1024 => drive::<1024>(shape, stream, cuts, use_ref),
        8192 => drive::<8192>(shape, stream, cuts, use_ref),
        90000 => drive::<90000>(shape, stream, cuts, use_ref),
        _ => panic!("harness bug: no accumulator capacity {}", n),
    }
}

/// What decoding one zero-terminated segment in isolation gives (reference COBS + reference
/// wire decoder): Some(value) = Success, None = deserialisation error.
pub fn isolated(shape: &Shape, segment_with_sentinel: &[u8]) -> Result<Option<Value>, DecErr> {
    let f = refcobs::decode_first_frame(segment_with_sentinel);
    match f.payload {
        None => Ok(None),
        Some(p) => match ref_decode(shape, &p) {
            Ok(d) => Ok(Some(d.value)),
            Err(DecErr::ZeroWidthSkip) => Err(DecErr::ZeroWidthSkip),
            Err(_) => Ok(None),
        },
    }
}

pub fn target_shapes() -> Vec<Shape> {
    vec![
        Shape::Unit,
        Shape::U8,
        Shape::Bool,
        Shape::U32,
        Shape::Tuple(vec![Shape::U8, Shape::U8]),
        Shape::Struct(Name("Demo"), vec![(Name("a"), Shape::U32), (Name("b"), Shape::U8)]),
        Shape::Struct(Name("Ref"), vec![(Name("s"), Shape::Str), (Name("b"), Shape::Bytes)]),
        Shape::Option(Box::new(Shape::Str)),
        Shape::Seq(Box::new(Shape::U16)),
        Shape::String,
    ]
}

/// One stream segment, as a recipe.
#[derive(Clone, Debug, Serialize, Deserialize)]
pub enum Seg {
    /// valid frame of this value
    Valid(Value),
    /// valid frame with byte `pos` (scaled) replaced by a non-zero byte
    Corrupt(Value, u16, u8),
    /// `[0]`
    Empty,
    /// non-zero garbage + 0
    Garbage(Vec<u8>),
    /// non-zero garbage without terminator (meaningful as the last segment; elsewhere it merges
    /// with the next segment, which is also a legitimate stream)
    Tail(Vec<u8>),
    /// over-long run of non-zero bytes + 0 (C09 only)
    Long(usize, u8),
    /// well-formed COBS frame whose payload is the value's encoding with the last k bytes cut off
    Short(Value, u8),
    /// well-formed COBS frame whose payload is the value's encoding followed by extra bytes
    Extra(Value, Vec<u8>),
}

pub fn nz(b: u8) -> u8 {
    if b == 0 {
        1
    } else {
        b
    }
}

/// Build the stream. With `fit = Some(n)` every zero-terminated segment and any tail is made to
/// fit capacity n (C08's precondition) by truncating it to non-zero garbage.
pub fn build_stream(shape: &Shape, segs: &[Seg], fit: Option<usize>) -> Vec<u8> {
    let mut out = vec![];
    // length of the pending (unterminated) part so far
    let mut pending = 0usize;
    for s in segs {
        let (mut bytes, terminated): (Vec<u8>, bool) = match s {
            Seg::Valid(v) => (refcobs::frame(&ref_encode(shape, v).unwrap().bytes), true),
            Seg::Corrupt(v, pos, b) => {
                let mut f = refcobs::frame(&ref_encode(shape, v).unwrap().bytes);
                let n = f.len() - 1;
                if n > 0 {
                    let i = gen::pick_idx(*pos, n);
                    f[i] = nz(*b);
                }
                (f, true)
            }
            Seg::Empty => (vec![0], true),
            Seg::Garbage(g) => {
                let mut v: Vec<u8> = g.iter().map(|b| nz(*b)).collect();
                v.push(0);
                (v, true)
            }
            Seg::Tail(g) => (g.iter().map(|b| nz(*b)).collect(), false),
            Seg::Short(v, k) => {
                let mut p = ref_encode(shape, v).unwrap().bytes;
                let cut = (*k as usize % 3 + 1).min(p.len());
                p.truncate(p.len() - cut);
                (refcobs::frame(&p), true)
            }
            Seg::Extra(v, x) => {
                let mut p = ref_encode(shape, v).unwrap().bytes;
                p.extend_from_slice(x);
                (refcobs::frame(&p), true)
            }
            Seg::Long(n, b) => {
                let mut v = vec![nz(*b); *n];
                v.push(0);
                (v, true)
            }
        };
        if let Some(n) = fit {
            // the segment as the accumulator sees it = pending tail + these bytes
            let total = pending + bytes.len();
            if total > n {
                let room = n.saturating_sub(pending);
                if terminated {
                    if room == 0 {
                        // cannot even fit a sentinel: drop this segment
                        continue;
                    }
                    bytes = vec![0x7Eu8; room - 1];
                    bytes.push(0);
                } else {
                    bytes.truncate(room);
                }
            }
        }
        if terminated {
            pending = 0;
        } else {
            pending += bytes.len();
        }
        out.extend(bytes);
    }
    out
}

pub fn arb_seg(shape: &Shape, allow_long: bool) -> BoxedStrategy<Seg> {
    let vs = gen::arb_value(shape, gen::ValCfg { max_len: 20, max_seq: 3 });
    let mut alts: Vec<(u32, BoxedStrategy<Seg>)> = vec![
        (6, vs.clone().prop_map(Seg::Valid).boxed()),
        (2, (vs.clone(), any::<u16>(), any::<u8>()).prop_map(|(v, p, b)| Seg::Corrupt(v, p, b)).boxed()),
        (2, (vs.clone(), any::<u8>()).prop_map(|(v, k)| Seg::Short(v, k)).boxed()),
        (1, (vs, proptest::collection::vec(any::<u8>(), 1..3)).prop_map(|(v, x)| Seg::Extra(v, x)).boxed()),
        (1, Just(Seg::Empty).boxed()),
        (1, proptest::collection::vec(1u8..=255, 0..6).prop_map(Seg::Garbage).boxed()),
        (1, proptest::collection::vec(1u8..=255, 1..5).prop_map(Seg::Tail).boxed()),
    ];
    if allow_long {
        alts.push((3, (1usize..40, any::<u8>()).prop_map(|(n, b)| Seg::Long(n, b)).boxed()));
        alts.push((1, (250usize..600, any::<u8>()).prop_map(|(n, b)| Seg::Long(n, b)).boxed()));
    }
    proptest::strategy::Union::new_weighted(alts).boxed()
}

/// cut points from a bit mask over the L-1 interior positions
pub fn cuts_from_mask(len: usize, mask: u64) -> Vec<usize> {
    (1..len).filter(|i| (mask >> (i - 1)) & 1 == 1).collect()
}

/// random cut points
pub fn arb_cuts(len: usize) -> BoxedStrategy<Vec<usize>> {
    if len <= 1 {
        return Just(vec![]).boxed();
    }
    prop_oneof![
        1 => Just(vec![]),
        1 => Just((1..len).collect::<Vec<usize>>()),
        4 => proptest::collection::vec(any::<u16>(), 0..8).prop_map(move |raws| {
            let mut v: Vec<usize> = raws.iter().map(|r| 1 + gen::pick_idx(*r, len - 1)).collect();
            v.sort();
            v.dedup();
            v
        }),
        2 => proptest::collection::vec(any::<bool>(), len - 1).prop_map(|bits| {
            bits.iter().enumerate().filter(|(_, b)| **b).map(|(i, _)| i + 1).collect()
        }),
    ]
    .boxed()
}

/// Streams of long frames (payloads of 200-700 bytes with a few zero bytes) for the large
/// capacities: (capacity, shape, stream)
pub fn arb_long_frame_stream() -> BoxedStrategy<(usize, Shape, Vec<u8>)> {
    let payload = (200usize..700, proptest::collection::vec((any::<u16>(), any::<bool>()), 0..6), any::<u8>(), prop_oneof![3 => Just(0usize), 1 => 250usize..258]).prop_map(|(n, zeros, fill, gap)| {
        let mut p = vec![nz(fill); n];
        if gap > 0 {
            // zero bytes separated by runs of exactly `gap` non-zero bytes (around the 254-byte COBS block size)
            let mut pos = gap;
            while pos < n {
                p[pos] = 0;
                pos += gap + 1;
            }
            return p;
        }
        for (pos, _) in zeros {
            let i = gen::pick_idx(pos, n);
            p[i] = 0;
        }
        p
    });
    (0..BIG_CAPS.len(), proptest::collection::vec((payload, 0..3u8), 1..4), any::<bool>())
        .prop_map(|(ci, frames, as_string)| {
            let n = BIG_CAPS[ci];
            let shape = if as_string { Shape::String } else { Shape::ByteBuf };
            let mut stream = vec![];
            for (p, kind) in frames {
                let v = if as_string {
                    Value::Str(p.iter().map(|b| if *b == 0 { '\0' } else { (b'a' + b % 26) as char }).collect())
                } else {
                    Value::Bytes(p)
                };
                let enc = ref_encode(&shape, &v).unwrap().bytes;
                let mut f = refcobs::frame(&enc);
                if kind == 1 && f.len() > 3 {
                    let i = f.len() / 2;
                    f[i] = nz(f[i].wrapping_add(1));
                }
                stream.extend(f);
                if kind == 2 {
                    stream.extend_from_slice(&[7, 7, 0]);
                }
            }
            (n, shape, stream)
        })
        .boxed()
}

/// Frames of structured values with many elements (long sparse collections) and of very large blobs, for the capacities
/// 8192 and 90000: (capacity, shape, stream of 1-3 frames)
pub fn arb_big_value_stream() -> BoxedStrategy<(usize, Shape, Vec<u8>)> {
    prop_oneof![
        3 => (gen::arb_long_sparse(), 1usize..3).prop_map(|((shape, value), copies)| {
            let enc = ref_encode(&shape, &value).unwrap().bytes;
            let mut stream = vec![];
            for _ in 0..copies {
                stream.extend(refcobs::frame(&enc));
            }
            (8192usize, shape, stream)
        }),
        1 => (prop_oneof![Just(16383usize), Just(16384), Just(20000), Just(32767), Just(32768), Just(40000), Just(49151), Just(49152), Just(65535), Just(65536), Just(70000)], any::<u8>(), any::<bool>()).prop_map(|(n, fill, as_string)| {
            let shape = if as_string { Shape::String } else { Shape::ByteBuf };
            let value = if as_string { Value::Str(((b'a' + fill % 26) as char).to_string().repeat(n)) } else { Value::Bytes((0..n).map(|k| if k % 997 == 0 { 0 } else { nz(fill.wrapping_add(k as u8)) }).collect()) };
            let enc = ref_encode(&shape, &value).unwrap().bytes;
            let mut stream = refcobs::frame(&enc);
            stream.extend(refcobs::frame(&ref_encode(&shape, &if as_string { Value::Str("ok".into()) } else { Value::Bytes(vec![1, 0, 2]) }).unwrap().bytes));
            (90000usize, shape, stream)
        }),
    ]
    .boxed()
}
