//! C12 — POSTCARD_MAX_SIZE is an upper bound on the encoded size of every value (see corpus_checks).
use crate::runner::{CaseResult, Ctx, Local};
use serde_json::Value as Json;

pub fn run(ctx: &Ctx) {
    super::corpus_checks::c12(ctx)
}
pub fn replay(case: &Json, l: &mut Local) -> CaseResult {
    super::corpus_checks::c12_replay(case, l)
}
