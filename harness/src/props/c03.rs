//! C03 — the decoder accepts exactly the encodings the specification allows, with the named
//! error otherwise.

use super::common::*;
use crate::dynshape::{with_shape, Dyn, Name, Shape, Value};
use crate::gen::{self, ShapeCfg, ValCfg};
use crate::mutate;
use crate::refcodec::{classify, ref_decode, ref_encode, DecErr};
use crate::runner::{fail, hex, no_panic, CaseResult, Ctx, Local, Tier};
use proptest::prelude::*;
use serde_json::Value as Json;

fn err_class(e: DecErr) -> &'static str {
    match e {
        DecErr::UnexpectedEnd => "rejected-unexpected-end",
        DecErr::BadVarint => "rejected-bad-varint",
        DecErr::BadBool => "rejected-bad-bool",
        DecErr::BadOption => "rejected-bad-option",
        DecErr::BadUtf8 => "rejected-bad-utf8",
        DecErr::BadChar => "rejected-bad-char",
        DecErr::UnknownVariant => "rejected-unknown-variant",
        DecErr::ZeroWidthSkip => "skipped-zero-width",
    }
}

/// Differential against the reference decoder on one (shape, input).
/// `canonical`: the input is an unmodified canonical encoding (trivial case).
pub fn check_decode(shape: &Shape, input: &[u8], canonical: bool, l: &mut Local) -> CaseResult {
    let cj = || case_bytes_json(shape, input);
    let reference = ref_decode(shape, input);
    if reference.as_ref().err() == Some(&DecErr::ZeroWidthSkip) {
        l.skipped += 1;
        return Ok(());
    }
    l.eval();
    let (r, log) = with_shape(shape, || no_panic(|| postcard::take_from_bytes::<Dyn>(input)));
    let got = r.map_err(|p| fail("decode", format!("take_from_bytes panicked: {}", p), cj()))?;
    if log.skipped_zero_width {
        l.skipped += 1;
        return Ok(());
    }
    match (&reference, &got) {
        (Ok(d), Ok((Dyn(v), rem))) => {
            if *v != d.value {
                return Err(fail(
                    "decode",
                    format!("decoded {:?} but the specification says {:?} (input {})", v, d.value, hex(input)),
                    cj(),
                ));
            }
            let consumed = input.len() - rem.len();
            if consumed != d.consumed || (!rem.is_empty() && rem.as_ptr() != input[d.consumed..].as_ptr()) {
                return Err(fail(
                    "decode",
                    format!("consumed {} bytes, specification says {} (input {})", consumed, d.consumed, hex(input)),
                    cj(),
                ));
            }
            // (where borrowed data points is C04's statement, not this one's)
            if d.noncanonical {
                l.class("accepted-noncanonical-varint");
            }
            if !rem.is_empty() {
                l.class("accepted-with-remainder");
            }
            if !canonical || d.noncanonical || !rem.is_empty() {
                l.nontrivial(&(shape, input));
            } else {
                l.class("accepted-canonical-exact");
            }
        }
        (Err(kind), Err(e)) => {
            if *kind != DecErr::UnknownVariant && classify(e) != Some(*kind) {
                return Err(fail(
                    "decode",
                    format!("rejected with {:?} but the first violated rule is {:?} (input {})", e, kind, hex(input)),
                    cj(),
                ));
            }
            l.class(err_class(*kind));
            l.nontrivial(&(shape, input));
        }
        (Ok(d), Err(e)) => {
            return Err(fail(
                "decode",
                format!(
                    "rejected with {:?} an input the specification allows: value {:?}, {} bytes (input {})",
                    e, d.value, d.consumed, hex(input)
                ),
                cj(),
            ))
        }
        (Err(kind), Ok((Dyn(v), _))) => {
            return Err(fail(
                "decode",
                format!("accepted as {:?} an input the specification rejects with {:?} (input {})", v, kind, hex(input)),
                cj(),
            ))
        }
    }
    // from_bytes must agree with take_from_bytes
    let (r2, _) = with_shape(shape, || no_panic(|| postcard::from_bytes::<Dyn>(input)));
    let got2 = r2.map_err(|p| fail("decode", format!("from_bytes panicked: {}", p), cj()))?;
    let same = match (&got, &got2) {
        (Ok((a, _)), Ok(b)) => a == b,
        (Err(a), Err(b)) => a == b,
        _ => false,
    };
    if !same {
        return Err(fail("decode", format!("from_bytes ({:?}) disagrees with take_from_bytes", got2.map(|d| d.0)), cj()));
    }
    // the byte-reader entry points accept exactly the same inputs (short reads and Interrupted are not errors)
    for eio in [false, true] {
        let mut scratch = vec![0u8; input.len() + 16];
        let rd = crate::iodoubles::SharedReader::new(crate::iodoubles::ChunkReader::new(
            input,
            crate::iodoubles::Schedule { chunks: vec![2, 1, 5], interrupt_every: if input.len() % 2 == 0 { 2 } else { 3 } },
            crate::iodoubles::Fault::None,
        ));
        let (r3, log3) = with_shape(shape, || {
            no_panic(|| {
                if eio {
                    postcard::from_eio::<Dyn, _>((rd.clone(), &mut scratch[..])).map(|(d, _)| d)
                } else {
                    postcard::from_io::<Dyn, _>((rd.clone(), &mut scratch[..])).map(|(d, _)| d)
                }
            })
        });
        let who = if eio { "from_eio" } else { "from_io" };
        let got3 = r3.map_err(|p| fail("decode", format!("{} panicked: {}", who, p), cj()))?;
        if log3.skipped_zero_width {
            continue;
        }
        let ok = match (&reference, &got3) {
            (Ok(d), Ok(Dyn(v))) => *v == d.value && rd.pos() == d.consumed,
            (Err(_), Err(_)) => true,
            _ => false,
        };
        if !ok {
            return Err(fail(
                "decode",
                format!(
                    "{} through a reader delivering short pieces with Interrupted in between gave {:?} after {} bytes; the specification says {:?} (input {})",
                    who,
                    got3.as_ref().map(|d| &d.0),
                    rd.pos(),
                    reference.as_ref().map(|d| (&d.value, d.consumed)),
                    hex(input)
                ),
                cj(),
            ));
        }
    }
    l.sample(|| format!("{:?} <= {}  :  {:?}", shape, hex(&input[..input.len().min(40)]), reference.as_ref().map(|d| (&d.value, d.consumed)).map_err(|e| *e)));
    Ok(())
}

/// Metamorphic: for an accepted input the tail never changes value or consumed length.
fn check_tail_independence(shape: &Shape, input: &[u8], l: &mut Local) -> CaseResult {
    let Ok(d) = ref_decode(shape, input) else { return Ok(()) };
    let mut alt = input[..d.consumed].to_vec();
    alt.extend_from_slice(&[0xFF, 0x00, 0x80]);
    let (r, log) = with_shape(shape, || no_panic(|| postcard::take_from_bytes::<Dyn>(&alt)));
    if log.skipped_zero_width {
        return Ok(());
    }
    l.eval();
    match r {
        Ok(Ok((Dyn(v), rem))) if v == d.value && rem.len() == 3 => Ok(()),
        other => Err(fail(
            "decode",
            format!("replacing the tail changed the result: {:?}", other.map(|r| r.map(|(d, rem)| (d.0, rem.len())))),
            case_bytes_json(shape, &alt),
        )),
    }
}

/// All derived inputs of one valid (shape, value).
fn check_family(shape: &Shape, value: &Value, l: &mut Local) -> CaseResult {
    let e = ref_encode(shape, value).expect("decodable shapes always encode");
    let bytes = &e.bytes;
    // (a) the valid encoding, alone and with a tail
    check_decode(shape, bytes, true, l)?;
    check_tail_independence(shape, bytes, l)?;
    // (b) every strict prefix must fail with unexpected-end
    let pre = mutate::positions(bytes.len(), 96);
    for &k in &pre {
        let p = &bytes[..k];
        let (r, log) = with_shape(shape, || no_panic(|| postcard::take_from_bytes::<Dyn>(p)));
        l.eval();
        if log.skipped_zero_width {
            continue;
        }
        match r {
            Ok(Err(postcard::Error::DeserializeUnexpectedEnd)) => {
                l.class("strict-prefix");
                l.nontrivial(&(shape, p));
            }
            other => {
                // a strict prefix of a message can itself be a complete message of a
                // shorter value only if the reference agrees; defer to the differential
                if ref_decode(shape, p).is_ok() {
                    check_decode(shape, p, false, l)?;
                } else {
                    return Err(fail(
                        "decode",
                        format!("strict prefix ({} of {} bytes) of a valid message gave {:?}, expected Err(DeserializeUnexpectedEnd)", k, bytes.len(), other.map(|r| r.map(|(d, _)| d.0))),
                        case_bytes_json(shape, p),
                    ));
                }
            }
        }
    }
    // (c) single-byte corruptions
    let mut buf = bytes.clone();
    for &i in &mutate::positions(bytes.len(), 40) {
        for c in mutate::corruptions_of(bytes[i]) {
            buf[i] = c;
            check_decode(shape, &buf, false, l)?;
        }
        buf[i] = bytes[i];
    }
    // (c2) length prefixes replaced by huge / just-too-large claims
    let mut done = 0;
    for (idx, &(off, len, bits)) in e.varint_spans.iter().enumerate() {
        if bits != 64 || done >= 4 {
            continue;
        }
        done += 1;
        let remaining = (bytes.len() - off - len) as u128;
        for c in [remaining + 1, u64::MAX as u128, u64::MAX as u128 - 1, 1u128 << 63, (1u128 << 63) - 1, (u64::MAX as u128) - remaining, 1u128 << 47] {
            l.class("huge-length-claim");
            check_decode(shape, &mutate::replace_varint(&e, idx, c), false, l)?;
        }
    }
    // (d) varint re-paddings: up to, at and one past the maximum length
    for (idx, &(_, len, bits)) in e.varint_spans.iter().enumerate().take(24) {
        let max = mutate::max_len(bits);
        for total in (len + 1)..=(max + 1) {
            let padded = mutate::repad(&e, idx, total);
            l.class(if total <= max { "repad-within-max" } else { "repad-past-max" });
            check_decode(shape, &padded, false, l)?;
        }
    }
    Ok(())
}

pub fn replay(case: &Json, l: &mut Local) -> CaseResult {
    if case.get("probe").is_some() {
        return check_human_readable_flag_c03(l);
    }
    if let Some(r) = super::corpus_checks::replay_corpus(case, l) {
        return r;
    }
    let shape = shape_of(case);
    if case.get("input").is_some() {
        let input = input_of(case);
        check_decode(&shape, &input, false, l)?;
        check_tail_independence(&shape, &input, l)
    } else {
        check_family(&shape, &value_of(case), l)
    }
}

fn small_shapes() -> Vec<Shape> {
    vec![
        Shape::U16,
        Shape::I16,
        Shape::Bool,
        Shape::Option(Box::new(Shape::U8)),
        Shape::Char,
        Shape::Str,
        Shape::String,
        Shape::Bytes,
        Shape::U8,
        Shape::I8,
        Shape::Seq(Box::new(Shape::Bool)),
        Shape::Enum(
            Name("E"),
            vec![
                crate::dynshape::Variant { index: 0, name: Name("A"), kind: crate::dynshape::VKind::Unit },
                crate::dynshape::Variant { index: 1, name: Name("B"), kind: crate::dynshape::VKind::Newtype(Box::new(Shape::U8)) },
                crate::dynshape::Variant { index: 128, name: Name("C"), kind: crate::dynshape::VKind::Tuple(vec![Shape::Bool, Shape::Bool]) },
            ],
        ),
    ]
}

/// number of byte strings of length <= n
fn count_le(n: u32) -> u64 {
    (0..=n).map(|k| 256u64.pow(k)).sum()
}

fn nth_bytes(mut i: u64, out: &mut [u8; 8]) -> usize {
    // enumerate by length then lexicographic
    let mut len = 0usize;
    loop {
        let c = 256u64.pow(len as u32);
        if i < c {
            break;
        }
        i -= c;
        len += 1;
    }
    for k in (0..len).rev() {
        out[k] = (i & 0xFF) as u8;
        i >>= 8;
    }
    len
}

const UTF8_ALPHABET: &[u8] = &[
    0x00, 0x41, 0x7F, 0x80, 0x9F, 0xA0, 0xBF, 0xC0, 0xC2, 0xDF, 0xE0, 0xED, 0xEF, 0xF0, 0xF4, 0xF5, 0xFF,
];

pub fn run(ctx: &Ctx) {
    ctx.set_rule(
        "cases: for generated (shape,value): the valid encoding, every strict prefix, single-byte corruptions \
         (each bit, 00/7F/80/FF) at every position, varint re-paddings up to/at/past the maximum length; random bytes; \
         exhaustive byte strings of length <= 3 for 12 small shapes; length-prefix x UTF-8-alphabet payload families for \
         char/str; structured varint strings for 32/64/128-bit integers. oracle: reference decoder written from the spec \
         (accept/value/consumed/error kind), tail independence, from_bytes == take_from_bytes. non-trivial = anything \
         but an unmodified canonical encoding with empty remainder; distinct = hash(shape, input)",
    );
    ctx.serial("human-readable-flag", check_human_readable_flag_c03);
    ctx.assume("reference decoder harness/src/refcodec.rs is written from the spec only and self-tested on the spec's tables");
    ctx.assume("sequences/maps of zero-width elements with claimed length > 65536 are skipped (counted under 'skipped')");

    // (f) exhaustive short byte strings for small shapes
    let shapes = small_shapes();
    let nlen = ctx.tier.pick(3, 3);
    let per = count_le(nlen);
    let ns = shapes.len() as u64;
    {
        let shapes = &shapes;
        ctx.par_range("exhaustive-short-inputs", per * ns, move |i, l| {
            let shape = &shapes[(i / per) as usize];
            let mut b = [0u8; 8];
            let n = nth_bytes(i % per, &mut b);
            let before = l.nontrivial.len();
            let r = check_decode(shape, &b[..n], false, l);
            if l.nontrivial.len() > before {
                l.nontrivial.clear();
                l.nontrivial_enum(1);
            }
            r
        });
    }
    ctx.exhausted("all byte strings of length <= 3 decoded as u16, i16, bool, Option<u8>, char, &str, String, &[u8], u8, i8, Vec<bool>, a 3-variant enum");

    if ctx.tier == Tier::Thorough {
        // all 4-byte strings for the 16-bit varint decoders
        for shape in [Shape::U16, Shape::I16] {
            let sh = shape.clone();
            ctx.par_range(&format!("exhaustive-4-bytes-{}", shape.kind_name()), 1u64 << 32, move |i, l| {
                let b = (i as u32).to_be_bytes();
                let before = l.nontrivial.len();
                let r = check_decode(&sh, &b, false, l);
                if l.nontrivial.len() > before {
                    l.nontrivial.clear();
                    l.nontrivial_enum(1);
                }
                r
            });
        }
        ctx.exhausted("all 4-byte strings decoded as u16 and i16");
    }

    // char/str: length prefix x payloads over a UTF-8-relevant alphabet, up to 5 payload bytes
    {
        let a = UTF8_ALPHABET.len() as u64;
        let max_payload = 5u32;
        let per_len: u64 = (0..=max_payload).map(|k| a.pow(k)).sum();
        let prefixes: u64 = 8; // claimed length 0..=7
        let shapes = [Shape::Char, Shape::Str];
        ctx.par_range("utf8-families", per_len * prefixes * 2, move |i, l| {
            let shape = &shapes[(i % 2) as usize];
            let i = i / 2;
            let claimed = (i % prefixes) as u8;
            let mut j = i / prefixes;
            let mut n = 0u32;
            loop {
                let c = a.pow(n);
                if j < c {
                    break;
                }
                j -= c;
                n += 1;
            }
            let mut input = vec![claimed];
            for _ in 0..n {
                input.push(UTF8_ALPHABET[(j % a) as usize]);
                j /= a;
            }
            let before = l.nontrivial.len();
            let r = check_decode(shape, &input, false, l);
            if l.nontrivial.len() > before {
                l.nontrivial.clear();
                l.nontrivial_enum(1);
            }
            r
        });
        ctx.exhausted("claimed length 0..7 x payloads of <= 5 bytes over a 17-symbol UTF-8 alphabet, as char and str");
    }

    // (g) structured varint strings: k continuation bytes from {80,81,FF} then a final byte
    for (shape, bits) in [
        (Shape::U32, 32u32),
        (Shape::I32, 32),
        (Shape::U64, 64),
        (Shape::I64, 64),
        (Shape::Usize, 64),
        (Shape::U128, 128),
        (Shape::I128, 128),
    ] {
        let max = mutate::max_len(bits);
        let ml = mutate::max_last(bits);
        let finals: Vec<u8> = vec![0x00, 0x01, 0x7F, ml, ml.wrapping_add(1), ml | 0x80, 0x80, 0xFF];
        let kmax = (max + 1).min(12) as u32;
        let total: u64 = (0..=kmax).map(|k| 3u64.pow(k) * finals.len() as u64).sum();
        let sh = shape.clone();
        ctx.par_range(&format!("varint-strings-{}", shape.kind_name()), total, move |i, l| {
            let mut j = i;
            let mut k = 0u32;
            loop {
                let c = 3u64.pow(k) * finals.len() as u64;
                if j < c {
                    break;
                }
                j -= c;
                k += 1;
            }
            let f = finals[(j % finals.len() as u64) as usize];
            j /= finals.len() as u64;
            let mut input = vec![];
            for _ in 0..k {
                input.push([0x80u8, 0x81, 0xFF][(j % 3) as usize]);
                j /= 3;
            }
            // for wide types put the interesting bytes at the end: pad the front with 0xFF
            if max > 12 {
                let mut pre = vec![0xFFu8; max - 12];
                pre.extend_from_slice(&input);
                input = pre;
            }
            input.push(f);
            input.push(0x2A); // a tail byte that must be left alone
            check_decode(&sh, &input, false, l)
        });
    }

    // collections whose keys / values / elements occupy no bytes at all: the count alone is the encoding
    {
        use crate::dynshape::Name;
        let unit_map = Shape::Map(Box::new(Shape::Unit), Box::new(Shape::Unit));
        let shapes: Vec<Shape> = vec![
            unit_map.clone(),
            Shape::Map(Box::new(Shape::UnitStruct(Name("K"))), Box::new(Shape::Tuple(vec![]))),
            Shape::Map(Box::new(Shape::Unit), Box::new(Shape::U8)),
            Shape::Map(Box::new(Shape::U8), Box::new(Shape::Unit)),
            Shape::Seq(Box::new(Shape::Unit)),
            Shape::Seq(Box::new(Shape::Tuple(vec![Shape::Unit, Shape::Unit]))),
            Shape::Option(Box::new(unit_map.clone())),
            Shape::Tuple(vec![unit_map.clone(), Shape::U8]),
            Shape::Tuple(vec![Shape::U8, unit_map.clone()]),
            Shape::Seq(Box::new(unit_map)),
        ];
        let tails: [&[u8]; 5] = [&[], &[0xAA], &[0x00, 0x00], &[0x01], &[0x02, 0x07, 0x09]];
        let shapes = &shapes;
        ctx.par_range("zero-width-collections", (shapes.len() * 8 * tails.len()) as u64, move |i, l| {
            let i = i as usize;
            let shape = &shapes[i % shapes.len()];
            let count = (i / shapes.len()) % 8;
            let tail = tails[i / (shapes.len() * 8)];
            let mut input = vec![count as u8];
            input.extend_from_slice(tail);
            l.class("zero-width-collection");
            check_decode(shape, &input, false, l)?;
            // behind an option tag / a leading byte as well
            let mut in2 = vec![0x01, count as u8];
            in2.extend_from_slice(tail);
            check_decode(shape, &in2, false, l)
        });
    }
    // long payloads: counts that need 3- and 4-byte varints, whole, truncated and padded
    {
        let lens: Vec<usize> = vec![16383, 16384, 16385, 20000, 32768, 40000, 49152, 65536, 81920, 2097151, 2097152, 3000000, 4194304];
        let lens_ref = &lens;
        ctx.par_range("long-payloads", lens.len() as u64 * 4, move |i, l| {
            let n = lens_ref[(i / 4) as usize];
            let (s, v) = match i % 4 {
                0 => (Shape::String, Value::Str("y".repeat(n))),
                1 => (Shape::Bytes, Value::Bytes(vec![0xA5; n])),
                2 => (Shape::Seq(Box::new(Shape::U8)), Value::List(vec![Value::U(7); n.min(70000)])),
                _ => (Shape::Tuple(vec![Shape::Str, Shape::U16]), Value::List(vec![Value::Str("z".repeat(n)), Value::U(513)])),
            };
            let e = ref_encode(&s, &v).unwrap();
            check_decode(&s, &e.bytes, true, l)?;
            check_decode(&s, &e.bytes[..e.bytes.len() - 1], false, l)?;
            let mut with_tail = e.bytes.clone();
            with_tail.extend_from_slice(&[1, 2, 3]);
            check_decode(&s, &with_tail, false, l)?;
            check_decode(&s, &mutate::repad(&e, 0, 5), false, l)
        });
    }

    // many elements, little data per element: the honest encoding, its strict prefixes at a few points, one corrupted byte
    ctx.par_proptest("long-sparse-collections", ctx.tier.pick(1_500, 20_000), || (gen::arb_long_sparse(), any::<u16>(), any::<u8>()), |((s, v), pos, x), l| {
        let e = ref_encode(s, v).unwrap();
        l.class("long-sparse-collection");
        check_decode(s, &e.bytes, true, l)?;
        let cut = gen::pick_idx(*pos, e.bytes.len());
        check_decode(s, &e.bytes[..cut], false, l)?;
        let mut b = e.bytes.clone();
        b[cut] = *x;
        check_decode(s, &b, false, l)
    });
    // (a)-(d) families from random trees
    let n = ctx.tier.pick(30_000, 500_000);
    ctx.par_proptest(
        "mutated-valid-encodings",
        n,
        || gen::arb_typed(ShapeCfg { allow_zero_width_elems: true, ..ShapeCfg::default() }, ValCfg { max_len: 130, max_seq: 4 }),
        |(s, v), l| check_family(s, v, l),
    );

    // (e) random bytes against random shapes
    let n = ctx.tier.pick(500_000, 8_000_000);
    ctx.par_proptest(
        "random-bytes",
        n,
        || (gen::arb_shape(ShapeCfg::default()), proptest::collection::vec(any::<u8>(), 0..24)),
        |(s, b), l| check_decode(s, b, false, l),
    );
    // bytes biased to small values (valid tags/lengths are small)
    ctx.par_proptest(
        "random-small-bytes",
        n,
        || {
            (
                gen::arb_shape(ShapeCfg::default()),
                proptest::collection::vec(prop_oneof![4 => 0u8..4, 2 => 0u8..16, 1 => any::<u8>(), 1 => Just(0x80u8), 1 => Just(0xFFu8)], 0..32),
            )
        },
        |(s, b), l| check_decode(s, b, false, l),
    );
    super::corpus_checks::c03(ctx);
}
