pub mod common;
pub mod c01;
pub mod c02;
pub mod c03;
pub mod c04;
pub mod c05;
pub mod c06;
pub mod c07;
pub mod accum;
pub mod c08;
pub mod c09;
pub mod c10;
pub mod c11;
pub mod c12;
pub mod c13;
pub mod c14;
pub mod c15;
pub mod c16;
pub mod c17;
pub mod c18;
pub mod c19;
pub mod c20;
pub mod corpus_checks;

use crate::runner::{CaseResult, Ctx, Local};
use serde_json::Value as Json;

pub struct Prop {
    pub id: &'static str,
    pub run: fn(&Ctx),
    pub replay: fn(&Json, &mut Local) -> CaseResult,
    pub self_test: fn() -> Result<(), String>,
}

pub fn all() -> Vec<Prop> {
    vec![
        Prop { id: "C01", run: c01::run, replay: c01::replay, self_test: common::self_test_codec },
        Prop { id: "C02", run: c02::run, replay: c02::replay, self_test: common::self_test_codec },
        Prop { id: "C03", run: c03::run, replay: c03::replay, self_test: common::self_test_codec },
        Prop { id: "C04", run: c04::run, replay: c04::replay, self_test: common::self_test_codec },
        Prop { id: "C05", run: c05::run, replay: c05::replay, self_test: common::self_test_codec },
        Prop { id: "C06", run: c06::run, replay: c06::replay, self_test: common::self_test_codec },
        Prop { id: "C07", run: c07::run, replay: c07::replay, self_test: common::self_test_codec },
        Prop { id: "C08", run: c08::run, replay: c08::replay, self_test: common::self_test_codec },
        Prop { id: "C09", run: c09::run, replay: c09::replay, self_test: common::self_test_codec },
        Prop { id: "C10", run: c10::run, replay: c10::replay, self_test: common::self_test_codec },
        Prop { id: "C11", run: c11::run, replay: c11::replay, self_test: common::self_test_codec },
        Prop { id: "C12", run: c12::run, replay: c12::replay, self_test: common::self_test_codec },
        Prop { id: "C13", run: c13::run, replay: c13::replay, self_test: common::self_test_codec },
        Prop { id: "C14", run: c14::run, replay: c14::replay, self_test: common::self_test_codec },
        Prop { id: "C15", run: c15::run, replay: c15::replay, self_test: common::self_test_schema },
        Prop { id: "C16", run: c16::run, replay: c16::replay, self_test: common::self_test_schema },
        Prop { id: "C17", run: c17::run, replay: c17::replay, self_test: common::self_test_schema },
        Prop { id: "C18", run: c18::run, replay: c18::replay, self_test: common::self_test_schema },
        Prop { id: "C19", run: c19::run, replay: c19::replay, self_test: common::self_test_schema },
        Prop { id: "C20", run: c20::run, replay: c20::replay, self_test: common::self_test_codec },
    ]
}
