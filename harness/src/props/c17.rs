//! C17 — the dynamic (schema-driven) codec agrees with the static codec and serde_json.

use super::common::*;
use crate::dynmap::{self, Excl};
use crate::dynshape::{render, Shape, Typed, Value};
use crate::gen::{self, ShapeCfg, ValCfg};
use crate::runner::{fail, hex, no_panic, panic_site, CaseResult, Ctx, Local};
use crate::schematree;
use proptest::prelude::*;
use serde_json::{json, Value as Json};

pub const SIG_ONE_TUPLE: &str = "dyn-plain-tuple-arity-1-not-an-array";

/// `shape` must already be JSON-faithful (see dynmap::jsonify_shape).
pub fn check(shape: &Shape, value: &Value, l: &mut Local) -> CaseResult {
    let cj = || case_json(shape, value);
    let tree = dynmap::shape_to_tree(shape);
    let schema = schematree::to_owned_expected(&tree);
    let t = Typed(shape, value);
    let j = match serde_json::to_value(&t) {
        Ok(j) => j,
        Err(e) => return Err(fail("dyn-agree", format!("harness: serde_json::to_value failed: {}", e), cj())),
    };
    let bytes = postcard::to_allocvec(&t).map_err(|e| fail("dyn-agree", format!("static encoder failed: {:?}", e), cj()))?;
    let one_tuple = dynmap::contains_one_tuple(shape);
    let tag = |f: crate::runner::Fail| if one_tuple { f.sig(SIG_ONE_TUPLE) } else { f };
    // the codec is a pure function of (schema, input): a call that was turned down half-way just before must not matter
    {
        thread_local! {
            static REJECT: (postcard_schema::schema::owned::OwnedDataModelType, Json) = (
                schematree::to_owned_expected(&crate::schematree::Tree::Tuple(vec![
                    crate::schematree::Tree::U8,
                    crate::schematree::Tree::Option(Box::new(crate::schematree::Tree::U16)),
                    crate::schematree::Tree::String,
                    crate::schematree::Tree::U8,
                ])),
                serde_json::json!([200, 513, "half", "not a number"]),
            );
        }
        REJECT.with(|(s, bad)| {
            let _ = no_panic(|| postcard_dyn::to_stdvec_dyn(s, bad));
            let _ = no_panic(|| postcard_dyn::from_slice_dyn(s, &[200, 1, 0x81]));
        });
    }
    l.eval();
    let enc = no_panic(|| postcard_dyn::to_stdvec_dyn(&schema, &j))
        .map_err(|p| fail("dyn-agree", format!("to_stdvec_dyn panicked: {}", p), cj()).sig(format!("panic:{}", panic_site(&p))))?;
    match &enc {
        Ok(b) if *b == bytes => {}
        other => {
            return Err(tag(fail(
                "dyn-agree",
                format!("to_stdvec_dyn(schema, {}) = {:?}, the static encoder gives {}", j, other.as_ref().map(|b| hex(b)), hex(&bytes)),
                cj(),
            )))
        }
    }
    l.eval();
    let dec = no_panic(|| postcard_dyn::from_slice_dyn(&schema, &bytes))
        .map_err(|p| fail("dyn-agree", format!("from_slice_dyn panicked: {}", p), cj()).sig(format!("panic:{}", panic_site(&p))))?;
    match &dec {
        Ok(v) if *v == j => {}
        other => {
            return Err(tag(fail(
                "dyn-agree",
                format!("from_slice_dyn(schema, {}) = {:?}, serde_json::to_value gives {}", hex(&bytes), other, j),
                cj(),
            )))
        }
    }
    let mut kinds = std::collections::BTreeSet::new();
    shape.visit_kinds(&mut |k| {
        kinds.insert(k);
    });
    for k in &kinds {
        l.class(k);
    }
    // convention corners
    let mut corner = false;
    fn corners(s: &Shape, l: &mut Local, corner: &mut bool) {
        match s {
            Shape::Tuple(ts) | Shape::TupleStruct(_, ts) if ts.is_empty() => {
                l.class("corner:arity-0-tuple");
                *corner = true
            }
            Shape::Struct(_, fs) if fs.is_empty() => {
                l.class("corner:empty-struct");
                *corner = true
            }
            Shape::Map(..) => {
                l.class("corner:map");
                *corner = true
            }
            _ => {}
        }
    }
    corners(shape, l, &mut corner);
    if shape.is_composite() || corner {
        l.nontrivial(&(shape, &bytes));
    }
    l.sample(|| format!("{}  json={}  bytes={}", render(shape, value), j, hex(&bytes[..bytes.len().min(32)])));
    Ok(())
}

/// generated (possibly not JSON-faithful) pair -> JSON-faithful pair, counting exclusions
fn prepare(shape: &Shape, value: &Value, keep_one_tuples: bool, l: &mut Local) -> (Shape, Value) {
    let mut ex = Excl::default();
    let js = dynmap::jsonify_shape(shape, keep_one_tuples, &mut ex);
    let jv = dynmap::jsonify_value(shape, &js, value);
    l.excluded_known += ex.one_tuples;
    (js, jv)
}

pub fn replay(case: &Json, l: &mut Local) -> CaseResult {
    if let Some(r) = super::corpus_checks::replay_corpus(case, l) {
        return r;
    }
    // strict: the stored shape is used as is (it is already JSON-faithful; plain 1-tuples kept)
    check(&shape_of(case), &value_of(case), l)
}

pub fn run(ctx: &Ctx) {
    ctx.set_rule(
        "cases: generated (shape,value) restricted to types whose JSON form is unambiguous (string-keyed maps with unique ascending \
         keys, no JSON-null payload under Option, unique field/variant names, one-field unnamed structs/variants as newtypes, dense \
         variant indices, 128-bit ints within i64/u64, finite floats) over all integer widths, char, strings, byte arrays, options, \
         sequences, tuples/arrays of arity 0 and n, all four struct forms, all four variant forms incl. zero-field ones, nesting. \
         oracle: to_stdvec_dyn(schema, serde_json::to_value(v)) == to_allocvec(v) and from_slice_dyn(schema, to_allocvec(v)) == \
         serde_json::to_value(v). non-trivial = composite shape or a convention corner (arity 0, empty struct, map); distinct = \
         hash(shape, bytes). plain 1-tuples are the known finding: rewritten to 2-tuples and counted under excluded_known",
    );
    ctx.assume("serde_json built with default features (no arbitrary_precision, no preserve_order), as postcard-dyn depends on it");
    let scfg = ShapeCfg { dense_enum_indices: true, borrowed: false, ..ShapeCfg::default() };
    let n = ctx.tier.pick(800_000, 8_000_000);
    ctx.par_proptest(
        "random-trees",
        n,
        || gen::arb_typed(scfg.clone(), ValCfg { max_len: 1000, max_seq: 5 }),
        |(s, v), l| {
            let (js, jv) = prepare(s, v, false, l);
            check(&js, &jv, l)
        },
    );
    let n = ctx.tier.pick(40_000, 400_000);
    ctx.par_proptest(
        "wide-and-deep",
        n,
        || {
            prop_oneof![gen::arb_wide(40), gen::arb_deep_chain(60)].prop_flat_map(|s| {
                let vs = gen::arb_value(&s, ValCfg { max_len: 20, max_seq: 2 });
                (Just(s), vs)
            })
        },
        |(s, v), l| {
            let (js, jv) = prepare(s, v, false, l);
            check(&js, &jv, l)
        },
    );
    // many elements, little data per element (options that are mostly absent / mostly present, unit variants, sparse records)
    ctx.par_proptest("long-sparse-collections", ctx.tier.pick(3_000, 40_000), gen::arb_long_sparse, |(s, v), l| {
        let (js, jv) = prepare(s, v, false, l);
        l.class("long-sparse-collection");
        check(&js, &jv, l)
    });
    super::corpus_checks::c17(ctx);
}
