//! C15 — borrowed and owned schemas are the same thing on the wire.

use crate::runner::{fail, hex, no_panic, CaseResult, Ctx, Local};
use crate::schematree::{self, StaticHolder, Tree, TreeCfg};
use postcard_schema::schema::owned::OwnedDataModelType;
use serde_json::{json, Value as Json};

pub fn check(tree: &Tree, l: &mut Local) -> CaseResult {
    let cj = || json!({"tree": tree});
    l.eval();
    let mut holder = StaticHolder::new();
    let st = holder.build(tree);
    let expected = schematree::to_owned_expected(tree);
    let conv = no_panic(|| OwnedDataModelType::from(st)).map_err(|p| fail("schema-wire", format!("conversion panicked: {}", p), cj()))?;
    if conv != expected {
        return Err(fail(
            "schema-wire",
            format!("OwnedDataModelType::from(borrowed) = {:?}, an independently built owned value is {:?}", conv, expected),
            cj(),
        ));
    }
    let b1 = no_panic(|| postcard::to_allocvec(st)).map_err(|p| fail("schema-wire", format!("serialising the borrowed schema panicked: {}", p), cj()))?;
    let b2 = no_panic(|| postcard::to_allocvec(&conv)).map_err(|p| fail("schema-wire", format!("serialising the owned schema panicked: {}", p), cj()))?;
    let (b1, b2) = match (b1, b2) {
        (Ok(a), Ok(b)) => (a, b),
        (a, b) => return Err(fail("schema-wire", format!("serialisation failed: {:?} / {:?}", a.err(), b.err()), cj())),
    };
    if b1 != b2 {
        return Err(fail("schema-wire", format!("borrowed schema serialises to {} but its owned conversion to {}", hex(&b1), hex(&b2)), cj()));
    }
    let back = no_panic(|| postcard::take_from_bytes::<OwnedDataModelType>(&b1)).map_err(|p| fail("schema-wire", format!("deserialising panicked: {}", p), cj()))?;
    match back {
        Ok((o, rem)) if o == conv && rem.is_empty() => {}
        other => return Err(fail("schema-wire", format!("bytes of the borrowed schema deserialise to {:?}", other.map(|(o, r)| (o, r.len()))), cj())),
    }
    let mut kinds = std::collections::BTreeSet::new();
    tree.visit_kinds(&mut |k| {
        kinds.insert(k);
    });
    for k in &kinds {
        l.class(k);
    }
    if kinds.iter().filter(|k| !k.starts_with("Data::")).count() >= 3 && tree.has_named() {
        l.nontrivial(tree);
    }
    l.sample(|| format!("{:?} -> {}", tree, hex(&b1[..b1.len().min(32)])));
    Ok(())
}

pub fn replay(case: &Json, l: &mut Local) -> CaseResult {
    let tree: Tree = serde_json::from_value(case["tree"].clone()).map_err(|e| fail("schema-wire", format!("bad replay: {}", e), case.clone()))?;
    check(&tree, l)
}

pub fn run(ctx: &Ctx) {
    ctx.set_rule(
        "cases: random schema trees over all 26 DataModelType kinds and 4 Data kinds (names: empty, ASCII, tag-coinciding letters, \
         multi-byte, 100-300 bytes; fan-out 0-5 and 30-40; depth <= 6), deep chains (<= 150) and wide nodes (<= 200), plus the \
         SCHEMA of every corpus type. oracle: to_allocvec(borrowed) == to_allocvec(owned conversion); from_bytes::<Owned> of those \
         bytes == the conversion, consuming everything; the conversion == an owned value built independently from the neutral tree. \
         non-trivial = tree with >= 3 distinct kinds and a named node; distinct = hash(tree). per-kind hit counts in 'classes'",
    );
    let n = ctx.tier.pick(600_000, 6_000_000);
    ctx.par_proptest("random-trees", n, || schematree::arb_tree(TreeCfg::default()), |t, l| check(t, l));
    let n = ctx.tier.pick(30_000, 300_000);
    ctx.par_proptest("deep-and-wide", n, || schematree::arb_deep_or_wide(150, 200), |t, l| check(t, l));
    let n = ctx.tier.pick(10_000, 100_000);
    ctx.par_proptest("array-then-new-types", n, || schematree::arb_array_then_types(TreeCfg { depth: 3, width: 4, exotic: true }), |t, l| check(t, l));
    ctx.par_proptest("same-shape-pairs", n, || schematree::arb_same_shape_pair(TreeCfg { depth: 3, width: 4, exotic: true }), |t, l| check(t, l));
    super::corpus_checks::c15(ctx);
}
