//! C15 — borrowed and owned schemas are the same thing on the wire.

use crate::runner::{fail, hex, no_panic, CaseResult, Ctx, Local};
use crate::schematree::{self, StaticHolder, Tree, TreeCfg};
use postcard_schema::schema::owned::OwnedDataModelType;
use serde_json::{json, Value as Json};

pub fn check(tree: &Tree, l: &mut Local) -> CaseResult {
    let cj = || json!({"tree": tree});
    l.eval();
    let mut holder = StaticHolder::new();
    let st = holder.build(tree);
    let expected = schematree::to_owned_expected(tree);
    let conv = no_panic(|| OwnedDataModelType::from(st)).map_err(|p| fail("schema-wire", format!("conversion panicked: {}", p), cj()))?;
    // compared structurally through the harness' neutral tree as well (not only with the `PartialEq` of the types under test)
    if conv != expected || schematree::from_owned(&conv) != *tree {
        return Err(fail(
            "schema-wire",
            format!("OwnedDataModelType::from(borrowed) = {:?}, an independently built owned value is {:?}", conv, expected),
            cj(),
        ));
    }
    // the conversion takes any `&DataModelType`: a copy of the root that lives on this stack frame (the same address for
    // every case) converts to the same thing
    {
        let local: postcard_schema::schema::DataModelType = *st;
        let conv2 = no_panic(|| OwnedDataModelType::from(&local)).map_err(|p| fail("schema-wire", format!("conversion panicked: {}", p), cj()))?;
        if schematree::from_owned(&conv2) != *tree {
            return Err(fail(
                "schema-wire",
                format!("OwnedDataModelType::from(&copy of the root on the stack) = {:?}, expected {:?}", conv2, expected),
                cj(),
            ));
        }
    }
    let b1 = no_panic(|| postcard::to_allocvec(st)).map_err(|p| fail("schema-wire", format!("serialising the borrowed schema panicked: {}", p), cj()))?;
    let b2 = no_panic(|| postcard::to_allocvec(&conv)).map_err(|p| fail("schema-wire", format!("serialising the owned schema panicked: {}", p), cj()))?;
    let (b1, b2) = match (b1, b2) {
        (Ok(a), Ok(b)) => (a, b),
        (a, b) => return Err(fail("schema-wire", format!("serialisation failed: {:?} / {:?}", a.err(), b.err()), cj())),
    };
    if b1 != b2 {
        return Err(fail("schema-wire", format!("borrowed schema serialises to {} but its owned conversion to {}", hex(&b1), hex(&b2)), cj()));
    }
    let back = no_panic(|| postcard::take_from_bytes::<OwnedDataModelType>(&b1)).map_err(|p| fail("schema-wire", format!("deserialising panicked: {}", p), cj()))?;
    match back {
        Ok((o, rem)) if o == conv && rem.is_empty() => {}
        other => return Err(fail("schema-wire", format!("bytes of the borrowed schema deserialise to {:?}", other.map(|(o, r)| (o, r.len()))), cj())),
    }
    // "a device can send its static schema and any host can receive it": through the framed / streamed transports too
    {
        let via_io = no_panic(|| postcard::to_io(st, Vec::<u8>::new())).map_err(|p| fail("schema-wire", format!("to_io of the borrowed schema panicked: {}", p), cj()))?;
        if via_io.as_ref() != Ok(&b1) {
            return Err(fail("schema-wire", format!("to_io(borrowed schema) = {:?}, to_allocvec gives {}", via_io.map(|b| hex(&b)), hex(&b1)), cj()));
        }
        let mut cw = crate::iodoubles::ChunkWriter::new(crate::iodoubles::Schedule { chunks: vec![3, 1, 40], interrupt_every: 0 }, crate::iodoubles::Fault::None, false);
        let r = no_panic(|| postcard::to_io(st, &mut cw).map(|_| ())).map_err(|p| fail("schema-wire", format!("to_io of the borrowed schema panicked: {}", p), cj()))?;
        if r.is_err() || cw.accepted != b1 {
            return Err(fail("schema-wire", format!("to_io(borrowed schema) into a short-writing sink delivered {}, to_allocvec gives {}", hex(&cw.accepted), hex(&b1)), cj()));
        }
        // ... and the host reads it from a stream that delivers a few bytes per call
        {
            let mut scratch = vec![0u8; b1.len() + 16];
            let rd = crate::iodoubles::ChunkReader::new(&b1, crate::iodoubles::Schedule { chunks: vec![2, 1, 5, 64], interrupt_every: 5 }, crate::iodoubles::Fault::None);
            let back = no_panic(|| postcard::from_io::<OwnedDataModelType, _>((rd, &mut scratch[..])).map(|(o, _)| o)).map_err(|p| fail("schema-wire", format!("from_io panicked: {}", p), cj()))?;
            match back {
                Ok(o) if schematree::from_owned(&o) == *tree => {}
                other => return Err(fail("schema-wire", format!("the schema read through from_io from a stream with short reads is received as {:?}", other), cj())),
            }
        }
        let framed = no_panic(|| postcard::to_allocvec_cobs(st)).map_err(|p| fail("schema-wire", format!("to_allocvec_cobs of the borrowed schema panicked: {}", p), cj()))?;
        match framed {
            Ok(mut f) => {
                let back = no_panic(|| postcard::from_bytes_cobs::<OwnedDataModelType>(&mut f)).map_err(|p| fail("schema-wire", format!("from_bytes_cobs panicked: {}", p), cj()))?;
                match back {
                    Ok(o) if schematree::from_owned(&o) == *tree => {}
                    other => return Err(fail("schema-wire", format!("the COBS-framed borrowed schema is received as {:?}", other), cj())),
                }
            }
            Err(e) => return Err(fail("schema-wire", format!("to_allocvec_cobs of the borrowed schema failed: {:?}", e), cj())),
        }
    }
    let mut kinds = std::collections::BTreeSet::new();
    tree.visit_kinds(&mut |k| {
        kinds.insert(k);
    });
    for k in &kinds {
        l.class(k);
    }
    if kinds.iter().filter(|k| !k.starts_with("Data::")).count() >= 3 && tree.has_named() {
        l.nontrivial(tree);
    }
    l.sample(|| format!("{:?} -> {}", tree, hex(&b1[..b1.len().min(32)])));
    Ok(())
}

pub fn replay(case: &Json, l: &mut Local) -> CaseResult {
    let tree: Tree = serde_json::from_value(case["tree"].clone()).map_err(|e| fail("schema-wire", format!("bad replay: {}", e), case.clone()))?;
    check(&tree, l)
}

pub fn run(ctx: &Ctx) {
    ctx.set_rule(
        "cases: random schema trees over all 26 DataModelType kinds and 4 Data kinds (names: empty, ASCII, tag-coinciding letters, \
         multi-byte, 100-300 bytes; fan-out 0-5 and 30-40; depth <= 6), deep chains (<= 150) and wide nodes (<= 200), plus the \
         SCHEMA of every corpus type. oracle: to_allocvec(borrowed) == to_allocvec(owned conversion); from_bytes::<Owned> of those \
         bytes == the conversion, consuming everything; the conversion == an owned value built independently from the neutral tree. \
         non-trivial = tree with >= 3 distinct kinds and a named node; distinct = hash(tree). per-kind hit counts in 'classes'",
    );
    let n = ctx.tier.pick(600_000, 6_000_000);
    ctx.par_proptest("random-trees", n, || schematree::arb_tree(TreeCfg::default()), |t, l| check(t, l));
    let n = ctx.tier.pick(30_000, 300_000);
    ctx.par_proptest("deep-and-wide", n, || schematree::arb_deep_or_wide(150, 200), |t, l| check(t, l));
    let n = ctx.tier.pick(10_000, 100_000);
    ctx.par_proptest("array-then-new-types", n, || schematree::arb_array_then_types(TreeCfg { depth: 3, width: 4, exotic: true }), |t, l| check(t, l));
    ctx.par_proptest("same-shape-pairs", n, || schematree::arb_same_shape_pair(TreeCfg { depth: 3, width: 4, exotic: true }), |t, l| check(t, l));
    super::corpus_checks::c15(ctx);
}
