//! C11 — reader/writer transports are equivalent to the slice path and never over-read.

use super::common::*;
use crate::dynshape::{render, with_shape, Dyn, Name, Shape, Typed, Value};
use crate::gen::{self, ShapeCfg, ValCfg};
use crate::guard::{Flush, GuardArena};
use crate::iodoubles::{ChunkReader, ChunkWriter, Fault, Schedule, SharedReader};
use crate::refcodec::ref_encode;
use crate::runner::{clear_pending, fail, hex, no_panic, set_pending, CaseResult, Ctx, Local};
use proptest::prelude::*;
use serde_json::{json, Value as Json};
use std::cell::RefCell;

thread_local! {
    static ARENA: RefCell<GuardArena> = RefCell::new(GuardArena::new(1 << 16));
}

#[derive(Clone, Debug, serde::Serialize, serde::Deserialize)]
pub struct Sched {
    pub chunks: Vec<usize>,
    pub interrupt_every: usize,
}
impl Sched {
    fn to(&self) -> Schedule {
        Schedule { chunks: if self.chunks.is_empty() { vec![usize::MAX] } else { self.chunks.clone() }, interrupt_every: self.interrupt_every }
    }
}

pub fn arb_sched() -> BoxedStrategy<Sched> {
    prop_oneof![
        1 => Just(Sched { chunks: vec![1], interrupt_every: 0 }),
        1 => Just(Sched { chunks: vec![], interrupt_every: 0 }),
        3 => (proptest::collection::vec(1usize..9, 1..6), prop_oneof![Just(0usize), Just(2), Just(3), Just(5)])
            .prop_map(|(c, i)| Sched { chunks: c, interrupt_every: i }),
    ]
    .boxed()
}

fn wcase(shape: &Shape, value: &Value, sched: &Sched, what: &str) -> Json {
    let mut j = case_json(shape, value);
    j["sched"] = json!(sched);
    j["what"] = json!(what);
    j
}

/// Writer side: all fault offsets, both adapters.
pub fn check_writer(shape: &Shape, value: &Value, sched: &Sched, l: &mut Local) -> CaseResult {
    let Ok(e) = ref_encode(shape, value) else { return Ok(()) };
    let want = &e.bytes;
    let t = Typed(shape, value);
    let cj = || wcase(shape, value, sched, "writer");
    for eio in [false, true] {
        let who = if eio { "to_eio" } else { "to_io" };
        // no fault
        l.eval();
        let mut w = ChunkWriter::new(sched.to(), Fault::None, false);
        let r = no_panic(|| if eio { postcard::to_eio(&t, &mut w).map(|_| ()) } else { postcard::to_io(&t, &mut w).map(|_| ()) })
            .map_err(|p| fail("io", format!("{} panicked: {}", who, p), cj()))?;
        if r.is_err() || w.accepted != *want {
            return Err(fail("io", format!("{}: {:?}, writer received {} but the encoding is {}", who, r, hex(&w.accepted), hex(want)), cj()));
        }
        if w.flushes == 0 || w.writes_after_flush != 0 {
            return Err(fail("io", format!("{}: returned Ok but the data was not flushed through (flush calls = {}, write calls after the last flush = {})", who, w.flushes, w.writes_after_flush), cj()));
        }
        // failing flush
        l.eval();
        let mut w = ChunkWriter::new(sched.to(), Fault::None, true);
        let r = no_panic(|| if eio { postcard::to_eio(&t, &mut w).map(|_| ()) } else { postcard::to_io(&t, &mut w).map(|_| ()) })
            .map_err(|p| fail("io", format!("{} panicked on failing flush: {}", who, p), cj()))?;
        if r.is_ok() || w.accepted != *want {
            return Err(fail("io", format!("{}: failing flush gave {:?} / {}", who, r, hex(&w.accepted)), cj()));
        }
        // fault at every offset
        let offs = crate::mutate::positions(want.len() + 1, 80);
        for &f in &offs {
            for hard in [true, false] {
                if eio && !hard {
                    continue; // embedded-io forbids Ok(0) from write (see iodoubles)
                }
                let fault = if hard { Fault::ErrorAt(f) } else { Fault::EofAt(f) };
                l.eval();
                let mut w = ChunkWriter::new(sched.to(), fault, false);
                let r = no_panic(|| if eio { postcard::to_eio(&t, &mut w).map(|_| ()) } else { postcard::to_io(&t, &mut w).map(|_| ()) })
                    .map_err(|p| fail("io", format!("{} panicked with {:?}: {}", who, fault, p), cj()))?;
                if f >= want.len() {
                    if r.is_err() || w.accepted != *want {
                        return Err(fail("io", format!("{}: fault beyond the end changed the outcome: {:?}", who, r), cj()));
                    }
                } else {
                    if r.is_ok() {
                        return Err(fail("io", format!("{}: writer failing at offset {} of {} but serialisation reported success", who, f, want.len()), cj()));
                    }
                    if w.accepted.len() > f || w.accepted[..] != want[..w.accepted.len()] {
                        return Err(fail("io", format!("{}: after a failure at {} the writer holds {}, not a prefix of {}", who, f, hex(&w.accepted), hex(want)), cj()));
                    }
                    if f > 0 {
                        l.nontrivial(&(eio, hard, f, want, &sched.chunks));
                        l.class("writer-fault-inside");
                    }
                }
            }
        }
    }
    if sched.chunks.iter().any(|c| *c < 8) {
        l.class("writer-short-writes");
    }
    Ok(())
}

/// bytes the reader-based decoder passes through the scratch buffer for this value: every str /
/// bytes payload, plus floats and chars (an upper bound on what any sane implementation needs)
fn scratch_upper(shape: &Shape, value: &Value) -> (usize, bool) {
    fn walk(s: &Shape, v: &Value, acc: &mut usize, only_payloads: &mut bool) {
        match (s, v) {
            (Shape::F32, _) => {
                *acc += 4;
                *only_payloads = false
            }
            (Shape::F64, _) => {
                *acc += 8;
                *only_payloads = false
            }
            (Shape::Char, Value::Char(c)) => {
                *acc += c.len_utf8();
                *only_payloads = false
            }
            (Shape::Str | Shape::String, Value::Str(x)) => *acc += x.len(),
            (Shape::Bytes | Shape::ByteBuf, Value::Bytes(x)) => *acc += x.len(),
            (Shape::Option(i), Value::Some(x)) => walk(i, x, acc, only_payloads),
            (Shape::Newtype(_, i), Value::Newtype(x)) => walk(i, x, acc, only_payloads),
            (Shape::Seq(i), Value::List(xs)) => xs.iter().for_each(|x| walk(i, x, acc, only_payloads)),
            (Shape::Tuple(ss) | Shape::TupleStruct(_, ss), Value::List(xs)) => ss.iter().zip(xs).for_each(|(s, x)| walk(s, x, acc, only_payloads)),
            (Shape::Struct(_, fs), Value::List(xs)) => fs.iter().zip(xs).for_each(|((_, s), x)| walk(s, x, acc, only_payloads)),
            (Shape::Map(k, vv), Value::Map(ps)) => ps.iter().for_each(|(a, b)| {
                walk(k, a, acc, only_payloads);
                walk(vv, b, acc, only_payloads)
            }),
            (Shape::Enum(_, vs), Value::Variant(pos, p)) => match (&vs[*pos].kind, &**p) {
                (crate::dynshape::VKind::Newtype(i), x) => walk(i, x, acc, only_payloads),
                (crate::dynshape::VKind::Tuple(ss), Value::List(xs)) => ss.iter().zip(xs).for_each(|(s, x)| walk(s, x, acc, only_payloads)),
                (crate::dynshape::VKind::Struct(fs), Value::List(xs)) => fs.iter().zip(xs).for_each(|((_, s), x)| walk(s, x, acc, only_payloads)),
                _ => {}
            },
            _ => {}
        }
    }
    let (mut acc, mut only) = (0, true);
    walk(shape, value, &mut acc, &mut only);
    (acc, only)
}

fn total_borrowable(shape: &Shape, value: &Value) -> usize {
    // bytes that must live in the scratch buffer: every str / bytes payload
    ref_encode(shape, value).map(|e| e.payload_spans.iter().map(|s| s.1).sum()).unwrap_or(0)
}

/// one read of a stream of messages with a given scratch size; returns per-message outcome
struct ReadOutcome {
    ok: bool,
    /// reader position after the call
    pos: usize,
}

#[allow(clippy::too_many_arguments)]
fn read_stream(
    shape: &Shape,
    values: &[Value],
    encs: &[Vec<u8>],
    stream: &[u8],
    sched: &Sched,
    fault: Fault,
    scratch_len: usize,
    flush: Flush,
    eio: bool,
    cj: &dyn Fn() -> Json,
) -> Result<Vec<ReadOutcome>, crate::runner::Fail> {
    let who = if eio { "from_eio" } else { "from_io" };
    ARENA.with(|a| {
        let mut a = a.borrow_mut();
        let scratch_all: &mut [u8] = a.slice(scratch_len, flush);
        scratch_all.fill(0xDD);
        let s_lo = scratch_all.as_ptr() as usize;
        let s_hi = s_lo + scratch_len;
        let rd = SharedReader::new(ChunkReader::new(stream, sched.to(), fault));
        let mut outcomes = vec![];
        let mut scratch: &mut [u8] = scratch_all;
        let mut expect_pos = 0usize;
        for (mi, v) in values.iter().enumerate() {
            let before_scratch = (scratch.as_ptr() as usize, scratch.len());
            let (r, log) = with_shape(shape, || {
                no_panic(|| {
                    if eio {
                        postcard::from_eio::<Dyn, _>((rd.clone(), scratch)).map(|(d, (_, s))| (d, s))
                    } else {
                        postcard::from_io::<Dyn, _>((rd.clone(), scratch)).map(|(d, (_, s))| (d, s))
                    }
                })
            });
            let r = r.map_err(|p| fail("io", format!("{} panicked: {}", who, p), cj()))?;
            if log.skipped_zero_width {
                return Ok(outcomes);
            }
            match r {
                Ok((Dyn(got), rest)) => {
                    if got != *v {
                        return Err(fail("io", format!("{} message {}: got {:?}, the slice path gives {:?}", who, mi, got, v), cj()));
                    }
                    expect_pos += encs[mi].len();
                    if rd.pos() != expect_pos {
                        return Err(fail(
                            "io",
                            format!("{} message {}: reader handed out {} bytes, the messages so far occupy {}", who, mi, rd.pos(), expect_pos),
                            cj(),
                        ));
                    }
                    // returned scratch is the tail of the supplied one
                    // (an empty returned scratch has no position: it stands for "nothing left")
                    let rl = rest.len();
                    let rp = if rl == 0 { before_scratch.0 + before_scratch.1 } else { rest.as_ptr() as usize };
                    if rp + rl != before_scratch.0 + before_scratch.1 || rl > before_scratch.1 {
                        return Err(fail("io", format!("{} message {}: returned scratch is not the tail of the supplied one", who, mi), cj()));
                    }
                    let used = before_scratch.1 - rl;
                    // borrowed fields: inside the scratch, disjoint, in order
                    let mut cursor = before_scratch.0;
                    let mut borrowed_total = 0;
                    for (p, n) in &log.borrows {
                        if *n == 0 {
                            continue;
                        }
                        if *p < cursor || p + n > rp || *p < s_lo || p + n > s_hi {
                            return Err(fail("io", format!("{} message {}: borrowed data overlaps, is out of order or lies outside the used scratch", who, mi), cj()));
                        }
                        cursor = p + n;
                        borrowed_total += n;
                    }
                    if used < borrowed_total {
                        return Err(fail("io", format!("{} message {}: {} scratch bytes used for {} borrowed bytes", who, mi, used, borrowed_total), cj()));
                    }
                    scratch = rest;
                    outcomes.push(ReadOutcome { ok: true, pos: rd.pos() });
                }
                Err(_) => {
                    if rd.pos() > expect_pos + encs[mi].len() {
                        return Err(fail("io", format!("{} message {}: failed after over-reading ({} > {})", who, mi, rd.pos(), expect_pos + encs[mi].len()), cj()));
                    }
                    outcomes.push(ReadOutcome { ok: false, pos: rd.pos() });
                    return Ok(outcomes);
                }
            }
        }
        Ok(outcomes)
    })
}

/// Reader side: schedules x faults at every offset x every scratch size, streams of messages.
pub fn check_reader(shape: &Shape, values: &[Value], sched: &Sched, l: &mut Local) -> CaseResult {
    let mut encs = vec![];
    for v in values {
        let Ok(e) = ref_encode(shape, v) else { return Ok(()) };
        encs.push(e.bytes);
    }
    let stream: Vec<u8> = encs.concat();
    let cj_owned = {
        let mut j = json!({"shape": shape, "values": values, "sched": sched, "what": "reader"});
        j["stream"] = json!(hex(&stream));
        j
    };
    let cj = || cj_owned.clone();
    set_pending(&cj_owned.to_string());
    let need: usize = values.iter().map(|v| total_borrowable(shape, v)).sum();
    let uppers: Vec<(usize, bool)> = values.iter().map(|v| scratch_upper(shape, v)).collect();
    let need_upper: usize = uppers.iter().map(|u| u.0).sum();
    let total = stream.len();
    for eio in [false, true] {
        // (1) roomy scratch, no fault: everything decodes, exact consumption
        l.eval();
        let out = read_stream(shape, values, &encs, &stream, sched, Fault::None, total + 8, Flush::End, eio, &cj)?;
        if out.len() == values.len() && !out.iter().all(|o| o.ok) {
            return Err(fail("io", "reader failed with roomy scratch and no fault", cj()));
        }
        if out.len() < values.len() {
            l.skipped += 1;
            clear_pending();
            return Ok(());
        }
        // (2) every scratch size: threshold + monotonicity
        let mut prev_ok_count = 0usize;
        let sizes: Vec<usize> = if total <= 160 { (0..=total + 1).collect() } else { crate::mutate::positions(total + 2, 120) };
        for (k, &s) in sizes.iter().enumerate() {
            l.eval();
            let flush = if k % 2 == 0 { Flush::End } else { Flush::Start };
            let out = read_stream(shape, values, &encs, &stream, sched, Fault::None, s, flush, eio, &cj)?;
            let okc = out.iter().filter(|o| o.ok).count();
            if okc < prev_ok_count {
                return Err(fail("io", format!("success is not monotone in scratch size: {} messages with {} bytes, fewer than with a smaller buffer", okc, s), cj()));
            }
            prev_ok_count = okc;
            if s < need && okc == values.len() {
                return Err(fail("io", format!("all messages decoded with {} scratch bytes although {} borrowed bytes have to live there", s, need), cj()));
            }
            // a scratch buffer that holds everything the decoder routes through it is not "too small"
            if s >= need_upper && okc != values.len() {
                return Err(fail(
                    "io",
                    format!("scratch of {} bytes holds all {} bytes of borrowed strings/bytes, floats and chars of the {} messages, yet only {} decoded", s, need_upper, values.len(), okc),
                    cj(),
                ));
            }
            if s >= total && okc != values.len() {
                return Err(fail("io", format!("scratch of {} bytes >= stream length {} but only {} of {} messages decoded", s, total, okc, values.len()), cj()));
            }
            if s < need {
                l.class("scratch-too-small");
            }
        }
        // (3) faults at every offset
        for &f in &crate::mutate::positions(total + 1, 120) {
            for hard in [true, false] {
                l.eval();
                let fault = if hard { Fault::ErrorAt(f) } else { Fault::EofAt(f) };
                let out = read_stream(shape, values, &encs, &stream, sched, fault, total + 4, Flush::Start, eio, &cj)?;
                // messages that end at or before f must decode; the one straddling f must fail
                let mut end = 0;
                for (mi, enc) in encs.iter().enumerate() {
                    end += enc.len();
                    let should_ok = end <= f;
                    match out.get(mi) {
                        Some(o) if o.ok == should_ok => {}
                        Some(o) => {
                            return Err(fail(
                                "io",
                                format!("reader {} at offset {}: message {} (ends at {}) ok={} expected ok={}", if hard { "failing" } else { "ending" }, f, mi, end, o.ok, should_ok),
                                cj(),
                            ))
                        }
                        None => {
                            if should_ok {
                                return Err(fail("io", format!("message {} missing from outcomes", mi), cj()));
                            }
                            break;
                        }
                    }
                    if !should_ok {
                        if out[mi].pos > f {
                            return Err(fail("io", format!("reader consumed {} bytes past a fault at {}", out[mi].pos, f), cj()));
                        }
                        if f > end - enc.len() {
                            l.class("reader-fault-inside-message");
                            l.nontrivial(&(eio, hard, f, &stream, &sched.chunks));
                        }
                        break;
                    }
                }
            }
        }
    }
    if values.len() >= 2 {
        l.class("multi-message-stream");
        l.nontrivial(&(&stream, &sched.chunks, 7u8));
    }
    if need > 0 {
        l.class("has-borrowed");
    }
    clear_pending();
    l.sample(|| format!("{} x{} stream={}B sched={:?}", render(shape, &values[0]), values.len(), total, sched));
    Ok(())
}

/// Corrupt / hostile length prefixes: the reader path answers like the slice path (Ok with the same value, or Err), never
/// panics, never writes outside the scratch buffer (guard pages), whatever was borrowed before the bad prefix.
pub fn check_reader_hostile(shape: &Shape, input: &[u8], sched: &Sched, scratch_len: usize, l: &mut Local) -> CaseResult {
    let cj_owned = json!({"shape": shape, "what": "reader-hostile", "input": hex(input), "sched": sched, "scratch": scratch_len});
    let cj = || cj_owned.clone();
    if crate::refcodec::ref_decode(shape, input).err() == Some(crate::refcodec::DecErr::ZeroWidthSkip) {
        l.skipped += 1;
        return Ok(());
    }
    set_pending(&cj_owned.to_string());
    let (slice_r, log) = with_shape(shape, || no_panic(|| postcard::take_from_bytes::<Dyn>(input).map(|(d, rest)| (d, rest.len()))));
    if log.skipped_zero_width {
        clear_pending();
        l.skipped += 1;
        return Ok(());
    }
    let slice_r = slice_r.map_err(|p| fail("io", format!("take_from_bytes panicked: {}", p), cj()))?;
    for eio in [false, true] {
        let who = if eio { "from_eio" } else { "from_io" };
        for flush in [Flush::End, Flush::Start] {
            l.eval();
            let got = ARENA.with(|a| {
                let mut a = a.borrow_mut();
                let scratch: &mut [u8] = a.slice(scratch_len, flush);
                scratch.fill(0xDD);
                let rd = SharedReader::new(ChunkReader::new(input, sched.to(), Fault::None));
                let (r, log) = with_shape(shape, || {
                    no_panic(|| {
                        if eio {
                            postcard::from_eio::<Dyn, _>((rd.clone(), scratch)).map(|(d, _)| d)
                        } else {
                            postcard::from_io::<Dyn, _>((rd.clone(), scratch)).map(|(d, _)| d)
                        }
                    })
                });
                (r, log.skipped_zero_width, rd.pos())
            });
            let (r, skipped, pos) = got;
            if skipped {
                continue;
            }
            let r = r.map_err(|p| fail("io", format!("{} panicked on a corrupt length prefix: {}", who, p), cj()))?;
            match (&slice_r, &r) {
                (Ok((Dyn(a), rest)), Ok(Dyn(b))) => {
                    if a != b || pos != input.len() - rest {
                        return Err(fail("io", format!("{}: value / consumed bytes differ from the slice path ({} vs {})", who, pos, input.len() - rest), cj()));
                    }
                }
                (Err(_), Err(_)) => {}
                // a scratch buffer that is too small is a legitimate extra reason to fail
                (Ok(_), Err(_)) if scratch_len < input.len() => {}
                (a, b) => {
                    return Err(fail(
                        "io",
                        format!("{} gave {:?} where slice decoding gives {:?}", who, b.as_ref().map(|_| "Ok").map_err(|e| format!("{:?}", e)), a.as_ref().map(|_| "Ok").map_err(|e| format!("{:?}", e))),
                        cj(),
                    ))
                }
            }
        }
    }
    l.class("reader-hostile-length");
    l.nontrivial(&(shape, input, scratch_len, 11u8));
    clear_pending();
    Ok(())
}

/// One transient-looking reader error (WouldBlock / TimedOut / ...) in the middle of a message, more data behind it:
/// the decoder reports an error - or, if it chooses to carry on, returns exactly the value and consumes exactly the message.
pub fn check_reader_transient(shape: &Shape, value: &Value, fail_at: usize, kind_idx: usize, chunk: usize, l: &mut Local) -> CaseResult {
    const KINDS: [std::io::ErrorKind; 4] = [std::io::ErrorKind::WouldBlock, std::io::ErrorKind::TimedOut, std::io::ErrorKind::ConnectionReset, std::io::ErrorKind::UnexpectedEof];
    let Ok(e) = ref_encode(shape, value) else { return Ok(()) };
    if e.bytes.is_empty() {
        return Ok(());
    }
    let fail_at = fail_at % e.bytes.len();
    let kind = KINDS[kind_idx % KINDS.len()];
    // the stream continues with a second copy of the message (data follows the one being decoded)
    let mut stream = e.bytes.clone();
    stream.extend_from_slice(&e.bytes);
    let cj = || {
        let mut j = case_json(shape, value);
        j["what"] = json!("reader-transient");
        j["fail_at"] = json!(fail_at);
        j["kind"] = json!(kind_idx);
        j["chunk"] = json!(chunk);
        j
    };
    for eio in [false, true] {
        let who = if eio { "from_eio" } else { "from_io" };
        l.eval();
        let mut scratch = vec![0u8; e.bytes.len() + 16];
        let mut rd = crate::iodoubles::TransientReader::new(&stream, chunk, fail_at, kind);
        let (r, log) = with_shape(shape, || {
            no_panic(|| {
                if eio {
                    postcard::from_eio::<Dyn, _>((&mut rd, &mut scratch[..])).map(|(d, _)| d)
                } else {
                    postcard::from_io::<Dyn, _>((&mut rd, &mut scratch[..])).map(|(d, _)| d)
                }
            })
        });
        if log.skipped_zero_width {
            l.skipped += 1;
            return Ok(());
        }
        let r = r.map_err(|p| fail("io", format!("{} panicked when the reader reported {:?} at offset {}: {}", who, kind, fail_at, p), cj()))?;
        match r {
            Err(_) => {}
            Ok(Dyn(v)) => {
                if v != *value || rd.pos != e.bytes.len() {
                    return Err(fail(
                        "io",
                        format!("{}: the reader reported {:?} at offset {} of the message; decoding went on and returned {:?} after {} bytes (message: {:?}, {} bytes)", who, kind, fail_at, v, rd.pos, value, e.bytes.len()),
                        cj(),
                    ));
                }
            }
        }
    }
    l.class("reader-transient-error");
    l.nontrivial(&(&e.bytes, fail_at, kind_idx % 4, chunk, 12u8));
    Ok(())
}

pub fn replay(case: &Json, l: &mut Local) -> CaseResult {
    let shape = shape_of(case);
    if case["what"].as_str() == Some("reader-transient") {
        return check_reader_transient(&shape, &value_of(case), case["fail_at"].as_u64().unwrap_or(0) as usize, case["kind"].as_u64().unwrap_or(0) as usize, case["chunk"].as_u64().unwrap_or(1) as usize, l);
    }
    if case["what"].as_str() == Some("reader-hostile") {
        let sched: Sched = serde_json::from_value(case["sched"].clone()).unwrap_or(Sched { chunks: vec![], interrupt_every: 0 });
        return check_reader_hostile(&shape, &crate::runner::unhex(case["input"].as_str().unwrap_or("")), &sched, case["scratch"].as_u64().unwrap_or(0) as usize, l);
    }
    let sched: Sched = serde_json::from_value(case["sched"].clone()).unwrap_or(Sched { chunks: vec![], interrupt_every: 0 });
    if case["what"].as_str() == Some("reader") {
        let values: Vec<Value> = serde_json::from_value(case["values"].clone()).unwrap();
        check_reader(&shape, &values, &sched, l)
    } else {
        check_writer(&shape, &value_of(case), &sched, l)
    }
}

fn borrowing_shapes() -> Vec<Shape> {
    vec![
        Shape::Struct(Name("R"), vec![(Name("a"), Shape::Str), (Name("n"), Shape::U32), (Name("b"), Shape::Bytes), (Name("c"), Shape::Str)]),
        Shape::Tuple(vec![Shape::F32, Shape::Char, Shape::Str, Shape::F64, Shape::Bytes]),
        Shape::Seq(Box::new(Shape::Str)),
        Shape::Option(Box::new(Shape::Tuple(vec![Shape::Bytes, Shape::Bytes]))),
    ]
}

pub fn run(ctx: &Ctx) {
    ctx.set_rule(
        "cases: generated (shape,value) incl. several borrowed str/bytes fields, floats, chars x write/read schedules (1-byte, \
         whole, random short transfers, Interrupted sprinkled in) x hard error / EOF at every byte offset x every scratch size \
         0..=len+1 (scratch flush against a guard page at either end) x std::io and embedded-io 0.6 adapters x streams of 1-5 \
         messages through one reader and scratch. oracle: writer receives exactly the reference encoding, a prefix on failure, \
         flush last; reader value == slice-path value, reader position == encoded length, borrowed fields disjoint/in order/inside \
         the scratch, returned scratch is the tail, Err (never panic) on faults or too-small scratch, success monotone in scratch \
         size, must fail below the borrowed total and succeed at the encoded length; with one length prefix replaced by a hostile value (usize::MAX-k, 2^63+k, 2^32, 2^16, len+k, k) the reader path answers like the slice path and never panics; one transient-looking reader error (WouldBlock/TimedOut/...) inside a message with more data behind it gives Err, or exactly the value with exact consumption; writer-side sweep over every str/bytes length 0..=600 followed by one-byte / varint / float fields. non-trivial = fault strictly inside a message, \
         or >= 2 messages on one stream; distinct = hash(adapter, fault, stream, schedule)",
    );
    ctx.assume("scratch demand of a message = its borrowed str/bytes payloads + 4/8 bytes per f32/f64 + 4 per char (what the decoder routes through the scratch buffer); a scratch of that size is taken to be large enough");
    ctx.assume("to_io/to_eio returning Ok means the data was flushed through (at least one flush, no write after the last one)");
    ctx.assume("embedded-io forbids write() returning Ok(0) for non-empty input, so the eio writer double reports an error instead (EOF-style faults only on std::io::Write)");
    let n = ctx.tier.pick(20_000, 200_000);
    let scfg = ShapeCfg { depth: 3, ..ShapeCfg::default() };
    ctx.par_proptest(
        "writer",
        n,
        || (gen::arb_typed(ShapeCfg { encoder_only: true, ..scfg.clone() }, ValCfg { max_len: 140, max_seq: 4 }), arb_sched()),
        |((s, v), sched), l| check_writer(s, v, sched, l),
    );
    let n = ctx.tier.pick(12_000, 120_000);
    ctx.par_proptest(
        "reader-random-trees",
        n,
        || {
            (gen::arb_shape(scfg.clone()), arb_sched()).prop_flat_map(|(s, sched)| {
                let vs = proptest::collection::vec(gen::arb_value(&s, ValCfg { max_len: 40, max_seq: 3 }), 1..=4);
                (Just(s), vs, Just(sched))
            })
        },
        |(s, vs, sched), l| check_reader(s, vs, sched, l),
    );
    // corrupt length prefixes behind earlier borrows
    ctx.par_proptest(
        "reader-hostile-lengths",
        n,
        || {
            let shapes = borrowing_shapes();
            (0..shapes.len() + 2, arb_sched(), any::<u16>(), 0u64..70).prop_flat_map(move |(si, sched, pick, k)| {
                let s = if si < shapes.len() { Just(shapes[si].clone()).boxed() } else { gen::arb_shape(ShapeCfg { depth: 3, ..ShapeCfg::default() }) };
                s.prop_flat_map(move |s| {
                    let v = gen::arb_value(&s, ValCfg { max_len: 30, max_seq: 3 });
                    (Just(s), v, Just(sched.clone()), Just(pick), Just(k))
                })
            })
        },
        |(s, v, sched, pick, k), l| {
            let Ok(e) = ref_encode(s, v) else { return Ok(()) };
            let lens: Vec<usize> = e.varint_spans.iter().enumerate().filter(|(_, sp)| sp.2 == 64).map(|(i, _)| i).collect();
            if lens.is_empty() {
                return Ok(());
            }
            let idx = lens[gen::pick_idx(*pick, lens.len())];
            let total = e.bytes.len() as u128;
            for c in [
                u64::MAX as u128 - *k as u128,
                u64::MAX as u128,
                u64::MAX as u128 - total,
                (u64::MAX / 2) as u128 + *k as u128,
                1u128 << 32,
                1u128 << 16,
                total + *k as u128,
                *k as u128,
            ] {
                let b = crate::mutate::replace_varint(&e, idx, c);
                check_reader_hostile(s, &b, sched, e.bytes.len() + 8, l)?;
                check_reader_hostile(s, &b, sched, (*k as usize) % (e.bytes.len() + 1), l)?;
            }
            Ok(())
        },
    );
    ctx.par_proptest(
        "reader-transient-errors",
        n * 2,
        || {
            let shapes = borrowing_shapes();
            (0..shapes.len() + 2, any::<u16>(), 0usize..4, prop_oneof![Just(1usize), Just(2), Just(3), Just(7), Just(1000)]).prop_flat_map(move |(si, at, kind, chunk)| {
                let s = if si < shapes.len() { Just(shapes[si].clone()).boxed() } else { gen::arb_shape(ShapeCfg { depth: 3, ..ShapeCfg::default() }) };
                s.prop_flat_map(move |s| {
                    let v = gen::arb_value(&s, ValCfg { max_len: 30, max_seq: 3 });
                    (Just(s), v, Just(at as usize), Just(kind), Just(chunk))
                })
            })
        },
        |(s, v, at, kind, chunk), l| check_reader_transient(s, v, *at, *kind, *chunk, l),
    );
    // payload length sweep on the writer side: every str/bytes length 0..=600 followed by a one-byte / varint / float field
    {
        let kinds = 9u64;
        // 0..=600, then windows around multiples of 512 / 1024 and the 2-/3-byte prefix boundary
        let mut lens: Vec<usize> = (0..=600).collect();
        for c in [1024usize, 1536, 2048, 4096, 8192, 16384] {
            lens.extend(c - 8..=c + 4);
        }
        let lens = &lens;
        ctx.par_range("writer-length-sweep", lens.len() as u64 * kinds, move |i, l| {
            let n = lens[(i / kinds) as usize];
            let (s, v): (Shape, Value) = match i % kinds {
                0 => (Shape::Tuple(vec![Shape::Str, Shape::Bool]), Value::List(vec![Value::Str("x".repeat(n)), Value::Bool(true)])),
                1 => (Shape::Tuple(vec![Shape::ByteBuf, Shape::U8]), Value::List(vec![Value::Bytes(vec![0xA5; n]), Value::U(7)])),
                2 => (
                    Shape::Tuple(vec![Shape::String, Shape::Option(Box::new(Shape::I8))]),
                    Value::List(vec![Value::Str("y".repeat(n)), Value::Some(Box::new(Value::I(-1)))]),
                ),
                3 => (Shape::Tuple(vec![Shape::Bytes, Shape::U32]), Value::List(vec![Value::Bytes(vec![1; n]), Value::U(70000)])),
                4 => (Shape::Tuple(vec![Shape::U8, Shape::Str, Shape::F32]), Value::List(vec![Value::U(1), Value::Str("z".repeat(n)), Value::F32(0x3FC0_0000)])),
                // Display-collected text (its length is only known after formatting), alone in front and behind other fields
                5 => (
                    Shape::Tuple(vec![Shape::U16, Shape::DisplayStr, Shape::Bool]),
                    Value::List(vec![Value::U(300), Value::Pieces("t".repeat(n).as_bytes().chunks(17).map(|c| String::from_utf8(c.to_vec()).unwrap()).collect()), Value::Bool(true)]),
                ),
                6 => (
                    Shape::Tuple(vec![Shape::Str, Shape::DisplayStr]),
                    Value::List(vec![Value::Str("p".repeat(n / 3)), Value::Pieces(vec!["q".repeat(n)])]),
                ),
                // a Display impl that also emits empty fragments
                7 => (
                    Shape::Tuple(vec![Shape::DisplayStr, Shape::U8]),
                    Value::List(vec![Value::Pieces(vec![String::new(), "r".repeat(n % 90), String::new(), String::new(), "s".repeat(n % 7), String::new()]), Value::U(3)]),
                ),
                _ => (
                    Shape::Seq(Box::new(Shape::Tuple(vec![Shape::Str, Shape::I8]))),
                    Value::List(vec![Value::List(vec![Value::Str("w".repeat(n)), Value::I(-3)]), Value::List(vec![Value::Str("w".repeat(n / 2)), Value::I(5)])]),
                ),
            };
            let sched = Sched { chunks: vec![[1usize, 3, 16, 4096][n % 4], 5], interrupt_every: if n % 3 == 0 { 4 } else { 0 } };
            check_writer(&s, &v, &sched, l)
        });
    }
    ctx.par_proptest(
        "reader-borrowing-types",
        n,
        || {
            let shapes = borrowing_shapes();
            (0..shapes.len(), arb_sched()).prop_flat_map(move |(si, sched)| {
                let s = shapes[si].clone();
                let vs = proptest::collection::vec(gen::arb_value(&s, ValCfg { max_len: 30, max_seq: 3 }), 1..=5);
                (Just(s), vs, Just(sched))
            })
        },
        |(s, vs, sched), l| check_reader(s, vs, sched, l),
    );
}
