//! C09 — the accumulator survives overflow and garbage and resyncs at the next sentinel.

use super::accum::*;
use super::c08::case_json;
use crate::dynshape::{Shape, Value};
use crate::refcobs;
use crate::refcodec::{ref_decode, DecErr};
use crate::runner::{fail, hex, CaseResult, Ctx, Local};
use proptest::prelude::*;
use serde_json::Value as Json;

pub fn check_history(n: usize, shape: &Shape, stream: &[u8], cuts: &[usize], use_ref: bool, l: &mut Local) -> CaseResult {
    let cj = || case_json(n, shape, stream, cuts, use_ref);
    l.eval();
    let h = drive_dyn(n, shape, stream, cuts, use_ref).map_err(|p| fail("overflow", format!("feed panicked: {}", p), cj()))?;
    if h.skipped {
        l.skipped += 1;
        return Ok(());
    }
    if let Some(off) = h.livelock {
        return Err(fail(
            "overflow",
            format!("the documented feed loop exceeded 2*len+2 iterations for the chunk starting at offset {} (no progress)", off),
            cj(),
        ));
    }
    // per-call invariants; consumed ranges
    let mut pos = 0usize;
    let mut ranges: Vec<(usize, usize)> = vec![];
    for (si, st) in h.steps.iter().enumerate() {
        if !st.suffix_ok {
            return Err(fail("overflow", format!("call {}: the returned slice is not a suffix of its input", si), cj()));
        }
        if st.off != pos {
            return Err(fail("overflow", format!("call {}: window starts at {} but {} bytes were consumed", si, st.off, pos), cj()));
        }
        if st.buffered.len() > n {
            return Err(fail("overflow", format!("call {}: {} bytes buffered in a capacity-{} accumulator", si, st.buffered.len(), n), cj()));
        }
        let consumed = st.len - st.rem_len;
        // back in the initial state after every zero byte: what is buffered after a call that passed a zero can only be
        // what it consumed behind the last zero (an implementation may carry on behind a dropped segment in the same call)
        if let Some(z) = stream[pos..pos + consumed].iter().rposition(|b| *b == 0) {
            let after = &stream[pos + z + 1..pos + consumed];
            if !st.buffered.is_empty() && st.buffered != after {
                return Err(fail(
                    "overflow",
                    format!("call {}: consumed a zero byte (followed by {}) but the buffer holds {}", si, hex(after), hex(&st.buffered)),
                    cj(),
                ));
            }
        }
        if st.kind == Kind::Consumed && consumed != st.len {
            return Err(fail("overflow", format!("call {}: Consumed but a remainder exists", si), cj()));
        }
        ranges.push((pos, pos + consumed));
        pos += consumed;
    }
    if pos != stream.len() {
        return Err(fail("overflow", format!("only {} of {} stream bytes were consumed", pos, stream.len()), cj()));
    }
    // segments
    let mut start = 0usize;
    let mut had_long = false;
    let (mut ci_ptr, mut cs_ptr) = (0usize, 0usize);
    // calls that consumed nothing (a whole-input hand-back) have empty ranges; skip them when searching
    let ranges: Vec<(usize, usize)> = ranges;
    let mut resync_after_long = false;
    for (i, b) in stream.iter().enumerate() {
        if *b != 0 {
            continue;
        }
        let seg = &stream[start..=i];
        // the call that consumed this sentinel (ranges are consecutive, so advance monotonically)
        while !(ranges[ci_ptr].0 <= i && i < ranges[ci_ptr].1) {
            ci_ptr += 1;
        }
        let ci = ci_ptr;
        // first call that touched this segment
        while ranges[cs_ptr].1 <= start {
            cs_ptr += 1;
        }
        if seg.len() > n {
            had_long = true;
            // some OverFull among the calls that touched [start, i]
            let reported = (cs_ptr..=ci).any(|k| h.steps[k].kind == Kind::OverFull && ranges[k].1 > start && ranges[k].0 <= i);
            if !reported {
                return Err(fail(
                    "overflow",
                    format!("segment [{}..={}] ({} bytes) exceeds capacity {} but no OverFull was reported before its sentinel was passed", start, i, seg.len(), n),
                    cj(),
                ));
            }
            l.class("overlong-segment");
        } else {
            // fits and starts right after a zero byte (or at the stream start): resync clause
            let f = refcobs::decode_first_frame(seg);
            if let Some(p) = &f.payload {
                match ref_decode(shape, p) {
                    Ok(d) => {
                        let st = &h.steps[ci];
                        if st.kind != Kind::Success || st.value.as_ref() != Some(&d.value) {
                            return Err(fail(
                                "overflow",
                                format!("well-formed frame [{}..={}] after a zero byte was not delivered intact: {:?} {:?}, expected Success({:?})", start, i, st.kind, st.value, d.value),
                                cj(),
                            ));
                        }
                        l.class("frame-delivered");
                        if had_long {
                            resync_after_long = true;
                        }
                    }
                    Err(DecErr::ZeroWidthSkip) => {}
                    Err(_) => {
                        if h.steps[ci].kind == Kind::Success {
                            return Err(fail("overflow", format!("segment [{}..={}] is not a valid message but Success was returned", start, i), cj()));
                        }
                    }
                }
            } else if h.steps[ci].kind == Kind::Success {
                return Err(fail("overflow", format!("ill-formed frame [{}..={}] gave Success", start, i), cj()));
            }
        }
        start = i + 1;
    }
    if resync_after_long {
        l.nontrivial(&(n, shape, stream, cuts, use_ref));
        l.class("resync-after-overlong");
    }
    l.class_n("overfull-results", h.steps.iter().filter(|s| s.kind == Kind::OverFull).count() as u64);
    l.sample(|| format!("N={} {:?} stream={} cuts={:?} -> {:?}", n, shape.kind_name(), hex(&stream[..stream.len().min(60)]), cuts, h.steps.iter().map(|s| s.kind).collect::<Vec<_>>()));
    Ok(())
}

pub fn replay(case: &Json, l: &mut Local) -> CaseResult {
    let shape: Shape = serde_json::from_value(case["shape"].clone()).unwrap();
    let stream = crate::runner::unhex(case["stream"].as_str().unwrap());
    let cuts: Vec<usize> = serde_json::from_value(case["cuts"].clone()).unwrap();
    check_history(case["capacity"].as_u64().unwrap() as usize, &shape, &stream, &cuts, case["use_ref"].as_bool().unwrap_or(false), l)
}

fn arb_any_stream(max_segs: usize) -> BoxedStrategy<(usize, Shape, Vec<u8>)> {
    let shapes = target_shapes();
    (0..CAPS.len(), 0..shapes.len())
        .prop_flat_map(move |(ci, si)| {
            let shape = shapes[si].clone();
            let n = CAPS[ci];
            // over-long segments sized relative to the capacity: N-1, N, N+1, N+2, 2N, 5N payload bytes
            let rel = prop_oneof![Just(n.saturating_sub(1)), Just(n), Just(n + 1), Just(n + 2), Just(2 * n), Just(5 * n)]
                .prop_map(|k| Seg::Long(k, 0x42));
            let seg = prop_oneof![4 => arb_seg(&shape, true), 2 => rel];
            (Just(n), Just(shape), proptest::collection::vec(seg, 0..=max_segs))
        })
        .prop_map(|(n, shape, segs)| {
            let stream = build_stream(&shape, &segs, None);
            (n, shape, stream)
        })
        .boxed()
}

pub fn run(ctx: &Ctx) {
    ctx.set_rule(
        "cases: as C08 without the fits-the-capacity restriction: over-long segments (N-1, N, N+1, N+2, 2N, 5N, 250-600 bytes), \
         garbage, random bytes, frames of length exactly N-1/N/N+1; capacities {1..6,8,13,16,32,64,256}; all chunkings of short \
         streams, all cut pairs, random chunkings. oracle (invariants over the history): no panic, buffered <= N, after a call that consumed a zero byte the buffer holds nothing but what was consumed behind the last zero, returned slice is a suffix of its input, an OverFull for every over-long segment no \
         later than the call consuming its sentinel, every well-formed fitting frame that starts after a zero byte is delivered as \
         Success with its value, feed loop terminates within 2*len+2 iterations. non-trivial = history with an over-long segment \
         followed by a delivered frame; distinct = hash(capacity, type, stream, cuts)",
    );
    ctx.assume("what is returned for the tail of an over-long segment is deliberately not modelled (the property leaves it open)");
    let lmax = ctx.tier.pick(12usize, 16);
    let n = ctx.tier.pick(8_000, 40_000);
    ctx.par_proptest(
        "all-chunkings-short-streams",
        n,
        || (arb_any_stream(4), any::<bool>()),
        |((n, shape, stream), use_ref), l| {
            let s = &stream[..stream.len().min(lmax)];
            let len = s.len();
            if len == 0 {
                return check_history(*n, shape, s, &[], *use_ref, l);
            }
            for mask in 0..(1u64 << (len - 1)) {
                check_history(*n, shape, s, &cuts_from_mask(len, mask), *use_ref, l)?;
            }
            Ok(())
        },
    );
    let n = ctx.tier.pick(10_000, 100_000);
    ctx.par_proptest(
        "all-cut-pairs",
        n,
        || (arb_any_stream(6), any::<bool>()),
        |((n, shape, stream), use_ref), l| {
            let len = stream.len().min(48);
            let s = &stream[..len];
            for i in 1..len {
                check_history(*n, shape, s, &[i], *use_ref, l)?;
                for j in i + 1..len {
                    check_history(*n, shape, s, &[i, j], *use_ref, l)?;
                }
            }
            Ok(())
        },
    );
    let n = ctx.tier.pick(600_000, 6_000_000);
    ctx.par_proptest(
        "random-chunkings",
        n,
        || {
            (arb_any_stream(12), any::<bool>()).prop_flat_map(|((n, shape, stream), r)| {
                let cuts = arb_cuts(stream.len());
                (Just((n, shape, stream)), cuts, Just(r))
            })
        },
        |((n, shape, stream), cuts, use_ref), l| check_history(*n, shape, stream, cuts, *use_ref, l),
    );
    // long frames (beyond 256 bytes) on large capacities, whole and chunked
    let nl = ctx.tier.pick(40_000, 400_000);
    // frames carrying many-element values and very large blobs (capacities 8192 / 90000), whole and in 1-2 cuts
    ctx.par_proptest(
        "big-value-frames",
        ctx.tier.pick(1_500, 20_000),
        || {
            (arb_big_value_stream(), any::<bool>(), proptest::collection::vec(any::<u32>(), 0..3)).prop_map(|((n, shape, stream), r, raw)| {
                let mut cuts: Vec<usize> = raw.iter().map(|x| 1 + (*x as usize) % stream.len().max(2).saturating_sub(1)).collect();
                cuts.sort();
                cuts.dedup();
                ((n, shape, stream), cuts, r)
            })
        },
        |((n, shape, stream), cuts, use_ref), l| {
            l.class("big-value-frame");
            check_history(*n, shape, stream, cuts, *use_ref, l)
        },
    );
    ctx.par_proptest(
        "long-frames",
        nl,
        || {
            (arb_long_frame_stream(), any::<bool>()).prop_flat_map(|((n, shape, stream), r)| {
                let cuts = prop_oneof![Just(vec![]), arb_cuts(stream.len())];
                (Just((n, shape, stream)), cuts, Just(r))
            })
        },
        |((n, shape, stream), cuts, use_ref), l| check_history(*n, shape, stream, cuts, *use_ref, l),
    );
    // very long noisy histories on one accumulator: > 65536 discarded segments of each kind
    // an over-long segment followed by a good frame, read with every fixed read size (reads larger than the capacity included)
    {
        const NS: [usize; 8] = [1, 2, 3, 4, 5, 8, 13, 16];
        let mut cases: Vec<(usize, usize, usize, bool)> = vec![];
        for &n in &NS {
            for k in [n + 1, 2 * n, 2 * n + 1, 2 * n + 2, 3 * n + 1, 4 * n + 3, 7 * n] {
                for r in 1..=(k + 6) {
                    cases.push((n, k, r, (n + k + r) % 2 == 0));
                }
            }
        }
        let cases = &cases;
        ctx.par_range("overlong-then-frame-every-read-size", cases.len() as u64, move |i, l| {
            let (n, k, r, use_ref) = cases[i as usize];
            let shape = Shape::U8;
            let stream = build_stream(&shape, &[Seg::Long(k, 0x37), Seg::Valid(Value::U(5)), Seg::Long(k + 1, 0x11), Seg::Valid(Value::U(200))], None);
            let cuts: Vec<usize> = (1..stream.len()).filter(|c| c % r == 0).collect();
            check_history(n, &shape, &stream, &cuts, use_ref, l)
        });
    }
    ctx.par_range("long-noisy-histories", 6, |i, l| {
        let (n, shape, unit): (usize, Shape, Vec<u8>) = match i {
            0 => (8, Shape::U8, vec![0]),                      // empty frames: one DeserError each
            1 => (8, Shape::U32, vec![9, 0]),                  // ill-formed COBS: DeserError
            2 => (2, Shape::U8, vec![5, 5, 5, 0]),             // over-long segment: OverFull
            3 => (4, Shape::U8, vec![2, 7, 0, 9, 9, 9, 9, 9, 0]), // alternating good frame / over-long
            4 => (1, Shape::Unit, vec![3, 0]),                 // capacity 1
            _ => (16, Shape::Bool, vec![2, 1, 0, 0, 4, 0]),    // good, empty, bad
        };
        let reps = 70_000;
        let mut stream = Vec::with_capacity(unit.len() * reps);
        for _ in 0..reps {
            stream.extend_from_slice(&unit);
        }
        let cuts: Vec<usize> = if i % 2 == 0 { vec![] } else { (1..stream.len()).step_by(4093).collect() };
        check_history(n, &shape, &stream, &cuts, i % 2 == 1, l)
    });
    // pure random bytes
    ctx.par_proptest(
        "random-bytes",
        n,
        || {
            let shapes = target_shapes();
            (
                0..CAPS.len(),
                0..shapes.len(),
                proptest::collection::vec(prop_oneof![3 => 0u8..4, 2 => any::<u8>()], 0..80),
                any::<bool>(),
            )
                .prop_flat_map(move |(ci, si, bytes, r)| {
                    let cuts = arb_cuts(bytes.len());
                    (Just((CAPS[ci], shapes[si].clone(), bytes)), cuts, Just(r))
                })
        },
        |((n, shape, stream), cuts, use_ref), l| check_history(*n, shape, stream, cuts, *use_ref, l),
    );
}
