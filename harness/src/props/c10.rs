//! C10 — CRC framing appends the right checksum and never accepts a wrong one.

use super::common::*;
use crate::dynshape::{with_shape, Dyn, Shape, Typed, Value};
use crate::gen::{self, ShapeCfg, ValCfg};
use crate::refcodec::{ref_decode, ref_encode};
use crate::refcrc::{self, Params};
use crate::runner::{fail, hex, no_panic, CaseResult, Ctx, Local};
use proptest::prelude::*;
use serde_json::{json, Value as Json};
use std::sync::OnceLock;

type EncFn = Box<dyn Fn(&Typed, usize) -> postcard::Result<Vec<u8>> + Sync + Send>;
type DecFn = Box<dyn Fn(&Shape, &[u8]) -> Result<postcard::Result<(Value, usize, bool)>, String> + Sync + Send>;
type FromFn = Box<dyn Fn(&Shape, &[u8]) -> Result<postcard::Result<Value>, String> + Sync + Send>;
/// A storage flavor as a user would write it: a cursor over a slice that implements only what the trait requires
/// (`size_hint` keeps its default).
pub struct UserSource<'de> {
    data: &'de [u8],
    pos: usize,
}
impl<'de> postcard::de_flavors::Flavor<'de> for UserSource<'de> {
    type Remainder = &'de [u8];
    type Source = &'de [u8];
    fn pop(&mut self) -> postcard::Result<u8> {
        let b = *self.data.get(self.pos).ok_or(postcard::Error::DeserializeUnexpectedEnd)?;
        self.pos += 1;
        Ok(b)
    }
    fn try_take_n(&mut self, ct: usize) -> postcard::Result<&'de [u8]> {
        let end = self.pos.checked_add(ct).ok_or(postcard::Error::DeserializeUnexpectedEnd)?;
        let s = self.data.get(self.pos..end).ok_or(postcard::Error::DeserializeUnexpectedEnd)?;
        self.pos = end;
        Ok(s)
    }
    fn finalize(self) -> postcard::Result<&'de [u8]> {
        Ok(&self.data[self.pos..])
    }
}

type ReaderFn = Box<dyn Fn(&Shape, &[u8], usize) -> Result<postcard::Result<Value>, String> + Sync + Send>;

pub struct CrcApi {
    pub params: Params,
    /// bytes appended (size_of the container integer)
    pub nbytes: usize,
    pub to_slice: EncFn,
    pub to_hvec: EncFn,
    pub to_alloc: EncFn,
    /// (value, remainder length, remainder is a suffix of the input by pointer)
    pub take: DecFn,
    pub from: FromFn,
    /// CRC modifier over the std::io reader storage with a scratch buffer of the given size
    pub from_reader: ReaderFn,
    /// CRC modifier over `UserSource`: (value, bytes left)
    pub from_user: Box<dyn Fn(&Shape, &[u8]) -> Result<postcard::Result<(Value, usize)>, String> + Sync + Send>,
}

macro_rules! api {
    ($out:ident, $algs:expr, $int:ty, $to_slice:ident, $to_vec:ident, $to_alloc:ident, $from:ident, $take:ident) => {
        for (params, alg) in $algs {
            let c: &'static crc::Crc<$int> = Box::leak(Box::new(crc::Crc::<$int>::new(alg)));
            $out.push(CrcApi {
                params,
                nbytes: std::mem::size_of::<$int>(),
                to_slice: Box::new(move |t, extra| {
                    let mut buf = vec![0x6Bu8; extra + 8];
                    postcard::ser_flavors::crc::$to_slice(t, &mut buf, c.digest()).map(|s| s.to_vec())
                }),
                to_hvec: Box::new(move |t, _| postcard::ser_flavors::crc::$to_vec::<_, 4096>(t, c.digest()).map(|v| v.to_vec())),
                to_alloc: Box::new(move |t, _| postcard::ser_flavors::crc::$to_alloc(t, c.digest())),
                take: Box::new(move |shape, input| {
                    let (r, log) = with_shape(shape, || no_panic(|| postcard::de_flavors::crc::$take::<Dyn>(input, c.digest())));
                    let r = r?;
                    if log.skipped_zero_width {
                        return Err("skip".into());
                    }
                    Ok(r.map(|(d, rem)| {
                        let off = input.len() - rem.len();
                        (d.0, rem.len(), rem.is_empty() || rem.as_ptr() == input[off..].as_ptr())
                    }))
                }),
                from: Box::new(move |shape, input| {
                    let (r, log) = with_shape(shape, || no_panic(|| postcard::de_flavors::crc::$from::<Dyn>(input, c.digest())));
                    let r = r?;
                    if log.skipped_zero_width {
                        return Err("skip".into());
                    }
                    Ok(r.map(|d| d.0))
                }),
                from_user: Box::new(move |shape, input| {
                    let (r, log) = with_shape(shape, || {
                        no_panic(|| {
                            use serde::Deserialize;
                            let flav = postcard::de_flavors::crc::CrcModifier::new(UserSource { data: input, pos: 0 }, c.digest());
                            let mut de = postcard::Deserializer::from_flavor(flav);
                            let v = Dyn::deserialize(&mut de)?;
                            let rest = de.finalize()?;
                            Ok((v, rest.len()))
                        })
                    });
                    let r: postcard::Result<(Dyn, usize)> = r?;
                    if log.skipped_zero_width {
                        return Err("skip".into());
                    }
                    Ok(r.map(|(d, n)| (d.0, n)))
                }),
                from_reader: Box::new(move |shape, input, scratch_len| {
                    let mut scratch = vec![0u8; scratch_len];
                    let (r, log) = with_shape(shape, || {
                        no_panic(|| {
                            use serde::Deserialize;
                            let rd = crate::iodoubles::ChunkReader::new(input, crate::iodoubles::Schedule { chunks: vec![3, 1, 8], interrupt_every: 0 }, crate::iodoubles::Fault::None);
                            let flav = postcard::de_flavors::crc::CrcModifier::new(postcard::de_flavors::io::io::IOReader::new(rd, &mut scratch[..]), c.digest());
                            let mut de = postcard::Deserializer::from_flavor(flav);
                            let v = Dyn::deserialize(&mut de)?;
                            de.finalize()?;
                            Ok(v)
                        })
                    });
                    let r: postcard::Result<Dyn> = r?;
                    if log.skipped_zero_width {
                        return Err("skip".into());
                    }
                    Ok(r.map(|d| d.0))
                }),
            });
        }
    };
}

pub fn apis() -> &'static Vec<CrcApi> {
    static APIS: OnceLock<Vec<CrcApi>> = OnceLock::new();
    APIS.get_or_init(|| {
        let mut out = vec![];
        api!(out, refcrc::algs8(), u8, to_slice_u8, to_vec_u8, to_allocvec_u8, from_bytes_u8, take_from_bytes_u8);
        api!(out, refcrc::algs16(), u16, to_slice_u16, to_vec_u16, to_allocvec_u16, from_bytes_u16, take_from_bytes_u16);
        api!(out, refcrc::algs32(), u32, to_slice_u32, to_vec_u32, to_allocvec_u32, from_bytes_u32, take_from_bytes_u32);
        api!(out, refcrc::algs64(), u64, to_slice_u64, to_vec_u64, to_allocvec_u64, from_bytes_u64, take_from_bytes_u64);
        api!(out, refcrc::algs128(), u128, to_slice_u128, to_vec_u128, to_allocvec_u128, from_bytes_u128, take_from_bytes_u128);
        out
    })
}

fn le(v: u128, n: usize) -> Vec<u8> {
    (0..n).map(|i| ((v >> (8 * i)) & 0xFF) as u8).collect()
}

pub fn frame_of(api: &CrcApi, plain: &[u8]) -> Vec<u8> {
    let mut o = plain.to_vec();
    o.extend(le(refcrc::crc(&api.params, plain), api.nbytes));
    o
}

fn cj(api: &CrcApi, shape: &Shape, input: &[u8]) -> Json {
    let mut j = case_bytes_json(shape, input);
    j["alg"] = json!(api.params.name);
    j
}

/// Forward direction on one value.
pub fn check_forward(ai: usize, shape: &Shape, value: &Value, tail: &[u8], l: &mut Local) -> CaseResult {
    let api = &apis()[ai % apis().len()];
    let Ok(e) = ref_encode(shape, value) else { return Ok(()) };
    let want = frame_of(api, &e.bytes);
    let t = Typed(shape, value);
    let cjv = || {
        let mut j = case_json(shape, value);
        j["alg"] = json!(api.params.name);
        j["tail"] = json!(hex(tail));
        j
    };
    for (name, f) in [("to_slice", &api.to_slice), ("to_vec", &api.to_hvec), ("to_allocvec", &api.to_alloc)] {
        if name == "to_vec" && want.len() > 4096 {
            continue;
        }
        l.eval();
        let r = no_panic(|| f(&t, want.len())).map_err(|p| fail("crc-forward", format!("{} panicked: {}", name, p), cjv()))?;
        if r.as_deref() != Ok(&want[..]) {
            return Err(fail(
                "crc-forward",
                format!("{} [{}] = {:?}; plain ++ little-endian reference CRC = {}", name, api.params.name, r.map(|b| hex(&b)), hex(&want)),
                cjv(),
            ));
        }
    }
    let mut input = want.clone();
    input.extend_from_slice(tail);
    l.eval();
    match (api.take)(shape, &input) {
        Err(s) if s == "skip" => {
            l.skipped += 1;
            return Ok(());
        }
        Err(p) => return Err(fail("crc-forward", format!("take_from_bytes panicked: {}", p), cjv())),
        Ok(Ok((v, remlen, ptr_ok))) => {
            if v != *value || remlen != tail.len() || !ptr_ok {
                return Err(fail("crc-forward", format!("take_from_bytes_crc [{}] returned {:?} with {} remaining bytes (expected the value and {} bytes)", api.params.name, v, remlen, tail.len()), cjv()));
            }
        }
        Ok(Err(e)) => return Err(fail("crc-forward", format!("take_from_bytes_crc [{}] rejected a correct frame: {:?}", api.params.name, e), cjv())),
    }
    match (api.from)(shape, &input) {
        Ok(Ok(v)) if v == *value => {}
        other => return Err(fail("crc-forward", format!("from_bytes_crc [{}]: {:?}", api.params.name, other), cjv())),
    }
    // the same modifier over a storage flavor written by a user (only the required trait methods)
    l.eval();
    match (api.from_user)(shape, &input) {
        Err(s) if s == "skip" => {}
        Ok(Ok((v, left))) if v == *value && left == tail.len() => {}
        other => return Err(fail("crc-forward", format!("CrcModifier over a user-defined storage flavor [{}]: {:?}", api.params.name, other), cjv())),
    }
    // the same modifier over reader storage: a scratch buffer that holds what the message routes through it plus the
    // checksum suffices (and a roomy one does, too)
    let need = scratch_need(shape, value) + api.nbytes;
    for sl in [need, need + 1, input.len() + 32] {
        l.eval();
        match (api.from_reader)(shape, &input, sl) {
            Err(s) if s == "skip" => break,
            Ok(Ok(v)) if v == *value => {}
            other => {
                return Err(fail(
                    "crc-forward",
                    format!("CrcModifier over IOReader [{}] with {} scratch bytes ({} needed for the message + {} for the checksum): {:?}", api.params.name, sl, need - api.nbytes, api.nbytes, other),
                    cjv(),
                ))
            }
        }
    }
    // a correct checksum at the *end* of a longer buffer proves nothing about the bytes the value
    // consumed: plain ++ slack ++ crc(plain ++ slack) must satisfy the converse like any other input
    if !tail.is_empty() {
        let mut longer = e.bytes.clone();
        longer.extend_from_slice(tail);
        let framed = frame_of(api, &longer);
        let accepted = check_converse(ai, shape, &framed, l)?;
        l.class(if accepted { "checksum-at-buffer-end-accepted(self-consistent)" } else { "checksum-at-buffer-end-rejected" });
    }
    if e.bytes.len() >= 2 {
        l.nontrivial(&(api.params.name, &want));
        l.class("forward");
    }
    l.sample(|| format!("[{}] {} ++ crc -> {}", api.params.name, hex(&e.bytes[..e.bytes.len().min(16)]), hex(&want[want.len().saturating_sub(api.nbytes + 4)..])));
    Ok(())
}

/// Converse on an arbitrary input: acceptance implies the consumed bytes are followed by their
/// correct checksum.
pub fn check_converse(ai: usize, shape: &Shape, input: &[u8], l: &mut Local) -> Result<bool, crate::runner::Fail> {
    let api = &apis()[ai % apis().len()];
    l.eval();
    let r = match (api.take)(shape, input) {
        Err(s) if s == "skip" => {
            l.skipped += 1;
            return Ok(false);
        }
        Err(p) => return Err(fail("crc-converse", format!("take_from_bytes_crc panicked: {}", p), cj(api, shape, input))),
        Ok(r) => r,
    };
    let from = (api.from)(shape, input).map_err(|p| fail("crc-converse", format!("from_bytes_crc panicked: {}", p), cj(api, shape, input)))?;
    match r {
        Ok((v, remlen, ptr_ok)) => {
            let n = api.nbytes;
            if !ptr_ok || remlen + n > input.len() {
                return Err(fail("crc-converse", "remainder is not a suffix of the input", cj(api, shape, input)));
            }
            let k = input.len() - remlen - n;
            let want = le(refcrc::crc(&api.params, &input[..k]), n);
            if input[k..k + n] != want[..] {
                return Err(fail(
                    "crc-converse",
                    format!("[{}] accepted {} although the {} value bytes are followed by {} and their checksum is {}", api.params.name, hex(input), k, hex(&input[k..k + n]), hex(&want)),
                    cj(api, shape, input),
                ));
            }
            match ref_decode(shape, input) {
                Ok(d) if d.consumed == k && d.value == v => {}
                other => {
                    return Err(fail(
                        "crc-converse",
                        format!("[{}] accepted value {:?} using {} bytes, the specification says {:?}", api.params.name, v, k, other.map(|d| (d.value, d.consumed))),
                        cj(api, shape, input),
                    ))
                }
            }
            if from != Ok(v) {
                return Err(fail("crc-converse", format!("from_bytes_crc disagrees with take_from_bytes_crc: {:?}", from), cj(api, shape, input)));
            }
            Ok(true)
        }
        Err(e) => {
            if from.is_ok() {
                return Err(fail("crc-converse", format!("take_from_bytes_crc rejected ({:?}) what from_bytes_crc accepted", e), cj(api, shape, input)));
            }
            Ok(false)
        }
    }
}

/// flip bit `i` of the stream in the algorithm's processing order
fn flip(buf: &mut [u8], i: usize, refin: bool) {
    let bit = if refin { i % 8 } else { 7 - i % 8 };
    buf[i / 8] ^= 1 << bit;
}

/// All corruptions of one valid frame.
pub fn check_corruptions(ai: usize, shape: &Shape, value: &Value, burst_seed: u64, exhaustive_bursts: bool, l: &mut Local) -> CaseResult {
    let api = &apis()[ai % apis().len()];
    let Ok(e) = ref_encode(shape, value) else { return Ok(()) };
    let k = e.bytes.len();
    let frame = frame_of(api, &e.bytes);
    let n = api.nbytes;
    let must_reject = |what: &str, bad: &[u8], l: &mut Local| -> CaseResult {
        // only the CRC stands between this input and acceptance when the plain decode is
        // unchanged in length; whatever the case, acceptance must satisfy the converse
        let accepted = check_converse(ai, shape, bad, l)?;
        let same_len = matches!(ref_decode(shape, bad), Ok(d) if d.consumed == k);
        if accepted && same_len {
            // converse passed => checksum matched by construction of the corruption? impossible for these families
            return Err(fail("crc-corruption", format!("[{}] {} accepted: {}", api.params.name, what, hex(bad)), cj(api, shape, bad)));
        }
        if same_len {
            l.nontrivial(&(api.params.name, bad));
            l.class(what);
        }
        Ok(())
    };
    // corruption confined to the checksum => BadCrc exactly
    for i in 0..n * 8 {
        let mut bad = frame.clone();
        bad[k + i / 8] ^= 1 << (i % 8);
        l.eval();
        match (api.take)(shape, &bad) {
            // "is rejected": the kind of error is not part of the statement (upstream: DeserializeBadCrc)
            Ok(Err(e)) => {
                l.nontrivial(&(api.params.name, &bad));
                l.class("checksum-bit-flip");
                if e == postcard::Error::DeserializeBadCrc {
                    l.class("checksum-bit-flip-reported-as-BadCrc");
                }
            }
            Err(s) if s == "skip" => return Ok(()),
            other => {
                return Err(fail(
                    "crc-corruption",
                    format!("[{}] a bit flipped inside the checksum gave {:?}, expected an error", api.params.name, other),
                    cj(api, shape, &bad),
                ))
            }
        }
    }
    // two-position corruptions confined to the checksum: the same bit in two of its bytes, two of its bytes exchanged
    for a in 0..n {
        for b in (a + 1)..n {
            let mut variants: Vec<Vec<u8>> = vec![];
            for bit in [0u8, 3, 7] {
                let mut bad = frame.clone();
                bad[k + a] ^= 1 << bit;
                bad[k + b] ^= 1 << bit;
                variants.push(bad);
            }
            if frame[k + a] != frame[k + b] {
                let mut bad = frame.clone();
                bad.swap(k + a, k + b);
                variants.push(bad);
            }
            for bad in variants {
                l.eval();
                match (api.take)(shape, &bad) {
                    Ok(Err(_)) => l.class("checksum-two-byte-corruption"),
                    Err(s) if s == "skip" => return Ok(()),
                    other => {
                        return Err(fail(
                            "crc-corruption",
                            format!("[{}] a frame whose checksum bytes {} and {} were damaged gave {:?}, expected an error", api.params.name, a, b, other),
                            cj(api, shape, &bad),
                        ))
                    }
                }
            }
        }
    }
    // every single-bit flip of the payload
    for i in 0..k * 8 {
        let mut bad = frame.clone();
        flip(&mut bad, i, api.params.refin);
        must_reject("payload-bit-flip", &bad, l)?;
    }
    // bursts: first and last bit set, span <= width, at every offset of the payload
    let w = api.params.width as usize;
    let total_bits = k * 8;
    let mut rng = burst_seed | 1;
    let mut next = || {
        rng ^= rng << 13;
        rng ^= rng >> 7;
        rng ^= rng << 17;
        rng
    };
    for off in 0..total_bits {
        for span in 2..=w {
            if off + span > total_bits {
                break;
            }
            let interiors: u64 = if span - 2 >= 63 { u64::MAX } else { 1u64 << (span - 2) };
            let reps = if exhaustive_bursts && span <= 10 { interiors } else { interiors.min(if span <= 16 { 6 } else { 3 }) };
            for rep in 0..reps {
                let pattern: u128 = if exhaustive_bursts && span <= 10 { rep as u128 } else { ((next() as u128) << 64) | next() as u128 };
                let mut bad = frame.clone();
                flip(&mut bad, off, api.params.refin);
                flip(&mut bad, off + span - 1, api.params.refin);
                for b in 0..span - 2 {
                    if (pattern >> (b % 128)) & 1 == 1 {
                        flip(&mut bad, off + 1 + b, api.params.refin);
                    }
                }
                must_reject("payload-burst", &bad, l)?;
            }
        }
    }
    // truncation at every length
    for cut in 0..frame.len() {
        let accepted = check_converse(ai, shape, &frame[..cut], l)?;
        if accepted {
            l.class("truncated-but-self-consistent");
        } else {
            l.class("truncated-rejected");
        }
    }
    Ok(())
}

pub fn replay(case: &Json, l: &mut Local) -> CaseResult {
    if case.get("storage").and_then(|s| s.as_str()) == Some("heapless") {
        return super::c05::replay(case, l);
    }
    let shape = shape_of(case);
    let name = case["alg"].as_str().unwrap_or("");
    let ai = apis().iter().position(|a| a.params.name == name).unwrap_or(0);
    if case.get("input").is_some() {
        let input = input_of(case);
        check_converse(ai, &shape, &input, l)?;
        // a replayed corruption: also apply the strict rejection rule relative to nothing — the
        // converse is the whole statement for a bare input
        Ok(())
    } else {
        let value = value_of(case);
        let tail = case.get("tail").and_then(|t| t.as_str()).map(crate::runner::unhex).unwrap_or_default();
        check_forward(ai, &shape, &value, &tail, l)?;
        check_corruptions(ai, &shape, &value, 1, true, l)
    }
}

pub fn run(ctx: &Ctx) {
    ctx.set_rule(
        "cases: generated (shape,value) x 14 catalogue algorithms (widths 8,16,32,64,82-in-128; reflected and not; non-zero \
         init/xorout) x {slice, heapless, alloc}; per frame every single-bit flip, bursts (first+last bit set, span <= width, \
         algorithm bit order) at every payload offset (all interiors for span <= 10, sampled beyond), every checksum bit flip, same-bit flips in two checksum bytes and checksum byte swaps, \
         truncation at every length; messages with an empty plain encoding; heapless vectors of capacity exactly / one below / one above the frame length (to_vec_u8..u128, to_vec_crc32); arbitrary random inputs. oracle: bit-serial reference CRC from catalogue parameters; \
         converse on every accepted input (consumed bytes followed by their correct little-endian checksum, consumed == \
         reference decoder). non-trivial = corrupted frame whose plain decode keeps its length (only the CRC can reject it), or \
         forward case with >= 2 payload bytes; distinct = hash(algorithm, input)",
    );
    ctx.assume("burst detection is asserted only for corruptions confined to the digested bytes with unchanged decoded length");
    let na = apis().len();
    let n = ctx.tier.pick(200_000, 2_000_000);
    let scfg = ShapeCfg::default();
    ctx.par_proptest(
        "forward",
        n,
        || (0..na, gen::arb_typed(scfg.clone(), ValCfg { max_len: 300, max_seq: 4 }), proptest::collection::vec(any::<u8>(), 0..4)),
        |(ai, (s, v), tail), l| check_forward(*ai, s, v, tail, l),
    );
    // every element count 0..=520 of sequences whose elements are read in small multi-byte takes
    // (floats, chars, short strings) or single bytes, followed by one more field: any internal
    // buffering of the digest has to get every length right
    {
        let total = 521u64 * 6 * na as u64;
        ctx.par_range("forward-length-sweep", total, move |i, l| {
            let ai = (i % na as u64) as usize;
            let kind = (i / na as u64) % 6;
            let n = (i / (na as u64 * 6)) as usize;
            let (s, v): (Shape, Value) = match kind {
                0 => (
                    Shape::Tuple(vec![Shape::Seq(Box::new(Shape::F32)), Shape::U16]),
                    Value::List(vec![Value::List((0..n).map(|k| Value::F32(0x3F80_0000 + k as u32)).collect()), Value::U(300)]),
                ),
                1 => (
                    Shape::Tuple(vec![Shape::Seq(Box::new(Shape::F64)), Shape::U8]),
                    Value::List(vec![Value::List((0..n).map(|k| Value::F64(0x3FF0_0000_0000_0000 + k as u64)).collect()), Value::U(7)]),
                ),
                2 => (
                    Shape::Tuple(vec![Shape::Seq(Box::new(Shape::Char)), Shape::Bool]),
                    Value::List(vec![Value::List((0..n).map(|k| Value::Char(['a', 'é', '名', '\u{1F600}'][k % 4])).collect()), Value::Bool(true)]),
                ),
                3 => (
                    Shape::Tuple(vec![Shape::Seq(Box::new(Shape::String)), Shape::U32]),
                    Value::List(vec![Value::List((0..n).map(|k| Value::Str("abcdefgh"[..k % 9].to_string())).collect()), Value::U(70000)]),
                ),
                4 => (
                    Shape::Tuple(vec![Shape::Seq(Box::new(Shape::U8)), Shape::F32]),
                    Value::List(vec![Value::List((0..n).map(|k| Value::U((k % 256) as u128)).collect()), Value::F32(0x4049_0FDB)]),
                ),
                _ => (
                    Shape::Tuple(vec![Shape::ByteBuf, Shape::F64, Shape::U8]),
                    Value::List(vec![Value::Bytes(vec![0x42; n]), Value::F64(0x4009_21FB_5444_2D18), Value::U(1)]),
                ),
            };
            check_forward(ai, &s, &v, &[], l)
        });
    }
    // messages whose plain encoding is empty: the frame is the checksum alone, with and without bytes behind it
    {
        let shapes: Vec<(Shape, Value)> = vec![
            (Shape::Unit, Value::Unit),
            (Shape::UnitStruct(crate::dynshape::Name("Ack")), Value::Unit),
            (Shape::Tuple(vec![]), Value::List(vec![])),
            (Shape::Tuple(vec![Shape::Unit, Shape::Unit]), Value::List(vec![Value::Unit, Value::Unit])),
            (Shape::Newtype(crate::dynshape::Name("Beat"), Box::new(Shape::Unit)), Value::Newtype(Box::new(Value::Unit))),
            (Shape::Struct(crate::dynshape::Name("Hb"), vec![(crate::dynshape::Name("a"), Shape::Unit)]), Value::List(vec![Value::Unit])),
        ];
        let tails: [&[u8]; 4] = [&[], &[0], &[0xFF, 1], &[1, 2, 3, 4, 5, 6, 7, 8, 9]];
        let total = (na * shapes.len() * tails.len()) as u64;
        let shapes = &shapes;
        ctx.par_range("empty-message-frames", total, move |i, l| {
            let i = i as usize;
            let (s, v) = &shapes[(i / na) % shapes.len()];
            let r = check_forward(i % na, s, v, tails[i / (na * shapes.len())], l);
            l.nontrivial(&(i, "empty-message"));
            r
        });
    }
    // heapless storage dimensioned exactly (capacity == plain length + checksum width, one less, one more)
    ctx.par_proptest(
        "heapless-exact-capacity",
        ctx.tier.pick(20_000, 200_000),
        || (gen::arb_typed(scfg.clone(), ValCfg { max_len: 40, max_seq: 3 }), 0..super::c05::HCAPS.len(), 2usize..7),
        |((s, v), ci, fi), l| super::c05::check_hvec(s, v, *ci, *fi, l),
    );
    // corruption families on raw payloads (length is immune to corruption) and on typed values
    let n = ctx.tier.pick(1_000, 12_000);
    ctx.par_proptest(
        "corruptions-raw",
        n,
        || (0..na, proptest::collection::vec(any::<u8>(), 1..14), any::<u64>()),
        |(ai, bytes, seed), l| {
            let (s, v) = super::c06::raw(bytes);
            check_corruptions(*ai, &s, &v, *seed, true, l)
        },
    );
    ctx.par_proptest(
        "corruptions-typed",
        n,
        || {
            (
                0..na,
                gen::arb_typed(ShapeCfg { depth: 2, ..ShapeCfg::default() }, ValCfg { max_len: 10, max_seq: 3 }),
                any::<u64>(),
            )
        },
        |(ai, (s, v), seed), l| {
            if crate::refcodec::ref_encode(s, v).map_or(true, |e| e.bytes.len() > 24) {
                return Ok(());
            }
            check_corruptions(*ai, s, v, *seed, false, l)
        },
    );
    // arbitrary inputs: acceptance implies a correct checksum
    let n = ctx.tier.pick(1_000_000, 10_000_000);
    ctx.par_proptest(
        "converse-random",
        n,
        || {
            (
                0..na,
                gen::arb_shape(ShapeCfg { depth: 2, ..ShapeCfg::default() }),
                proptest::collection::vec(prop_oneof![3 => 0u8..4, 2 => any::<u8>()], 0..24),
            )
        },
        |(ai, s, b), l| {
            let acc = check_converse(*ai, s, b, l)?;
            if acc {
                l.class("random-accepted");
                l.nontrivial(&(*ai, b));
            } else {
                l.class("random-rejected");
            }
            Ok(())
        },
    );
    // multi-byte random damage to valid frames
    ctx.par_proptest(
        "converse-damaged",
        n / 4,
        || {
            (
                0..na,
                gen::arb_typed(ShapeCfg { depth: 2, ..ShapeCfg::default() }, ValCfg { max_len: 40, max_seq: 3 }),
                proptest::collection::vec((any::<u16>(), any::<u8>()), 1..4),
            )
        },
        |(ai, (s, v), dmg), l| {
            let api = &apis()[*ai % apis().len()];
            let Ok(e) = ref_encode(s, v) else { return Ok(()) };
            let mut f = frame_of(api, &e.bytes);
            for (p, x) in dmg {
                let i = gen::pick_idx(*p, f.len());
                f[i] ^= *x | 1;
            }
            let acc = check_converse(*ai, s, &f, l)?;
            l.class(if acc { "damaged-accepted(self-consistent)" } else { "damaged-rejected" });
            if !acc {
                l.nontrivial(&(*ai, &f));
            }
            Ok(())
        },
    );
}
