//! C02 — the encoder emits exactly the published wire format, with canonical varints.

use super::common::*;
use crate::dynshape::{render, Shape, Typed, Value};
use crate::gen::{self, ShapeCfg, ValCfg};
use crate::refcodec::{ref_encode, varints_canonical, EncErr};
use crate::runner::{fail, hex, no_panic, CaseResult, Ctx, Local, Tier};
use proptest::prelude::*;
use serde_json::Value as Json;

pub fn check(shape: &Shape, value: &Value, l: &mut Local) -> CaseResult {
    let cj = || case_json(shape, value);
    let t = Typed(shape, value);
    let reference = ref_encode(shape, value);
    l.eval();
    let got_alloc = no_panic(|| postcard::to_allocvec(&t)).map_err(|p| fail("wire", format!("to_allocvec panicked: {}", p), cj()))?;
    match reference {
        Err(EncErr::UnknownLength) => {
            l.class("unknown-length");
            // "refused with an error": which kind is not prescribed (upstream: SerializeSeqLengthUnknown)
            if got_alloc == Err(postcard::Error::SerializeSeqLengthUnknown) {
                l.class("unknown-length-refused-with-SerializeSeqLengthUnknown");
            }
            if got_alloc.is_ok() {
                return Err(fail(
                    "wire",
                    format!("value with a seq/map of unknown length: expected an error, got {:?}", got_alloc.map(|b| hex(&b))),
                    cj(),
                ));
            }
            let mut buf = vec![0u8; 4096];
            let got_slice = no_panic(|| postcard::to_slice(&t, &mut buf).map(|s| s.len()))
                .map_err(|p| fail("wire", format!("to_slice panicked: {}", p), cj()))?;
            if got_slice.is_ok() {
                return Err(fail("wire", format!("to_slice on unknown-length value: {:?}", got_slice), cj()));
            }
            l.nontrivial(&(shape, "unknown-length", format!("{:?}", value)));
            Ok(())
        }
        Ok(e) => {
            if !varints_canonical(&e) {
                return Err(fail("wire", "harness reference produced a non-canonical varint (harness bug)", cj()));
            }
            match &got_alloc {
                Ok(b) if *b == e.bytes => {}
                Ok(b) => {
                    return Err(fail(
                        "wire",
                        format!("to_allocvec = {} but the specification prescribes {}", hex(b), hex(&e.bytes)),
                        cj(),
                    ))
                }
                Err(err) => return Err(fail("wire", format!("to_allocvec failed with {:?}; spec prescribes {}", err, hex(&e.bytes)), cj())),
            }
            let mut buf = vec![0u8; e.bytes.len() + 3];
            let got_slice = no_panic(|| postcard::to_slice(&t, &mut buf).map(|s| s.to_vec()))
                .map_err(|p| fail("wire", format!("to_slice panicked: {}", p), cj()))?;
            if got_slice.as_deref() != Ok(&e.bytes[..]) {
                return Err(fail("wire", format!("to_slice = {:?} but the specification prescribes {}", got_slice.map(|b| hex(&b)), hex(&e.bytes)), cj()));
            }
            if e.bytes.len() <= 4096 {
                let mut cw = crate::iodoubles::ChunkWriter::new(
                    crate::iodoubles::Schedule { chunks: vec![1 + e.bytes.len() % 3, 1, 7], interrupt_every: if e.bytes.len() % 2 == 0 { 0 } else { 3 } },
                    crate::iodoubles::Fault::None,
                    false,
                );
                let r = no_panic(|| postcard::to_io(&t, &mut cw).map(|_| ())).map_err(|p| fail("wire", format!("to_io panicked: {}", p), cj()))?;
                if r.is_err() || cw.accepted != e.bytes {
                    return Err(fail("wire", format!("to_io into a sink taking a few bytes per call: {:?}, sink holds {} but the specification prescribes {}", r, hex(&cw.accepted), hex(&e.bytes)), cj()));
                }
            }
            let sz = no_panic(|| postcard::experimental::serialized_size(&t)).map_err(|p| fail("wire", format!("serialized_size panicked: {}", p), cj()))?;
            // (the size-measuring call belongs to C05's statement, not to this one: counted, not judged)
            if sz == Ok(e.bytes.len()) {
                l.class("serialized_size-agrees");
            }
            let multi = e.varint_spans.iter().any(|s| s.1 > 1);
            if multi || e.has_float || e.has_header {
                l.nontrivial(&(shape, &e.bytes));
                l.class("nontrivial");
            }
            if multi {
                l.class("multi-byte-varint");
            }
            if e.has_float {
                l.class("float");
            }
            if shape.encoder_only() {
                l.class("display-str");
            }
            l.sample(|| format!("{}  =>  {}", render(shape, value), hex(&e.bytes[..e.bytes.len().min(48)])));
            Ok(())
        }
    }
}

pub fn replay(case: &Json, l: &mut Local) -> CaseResult {
    if case.get("probe").is_some() {
        return check_human_readable_flag_c02(l);
    }
    if let Some(r) = super::corpus_checks::replay_corpus(case, l) {
        return r;
    }
    check(&shape_of(case), &value_of(case), l)
}

/// The spec's own tables as fixed regression cases, checked against the implementation.
fn spec_tables(l: &mut Local) -> CaseResult {
    let u16_tab: &[(u16, &[u8])] = &[
        (0, &[0x00]), (127, &[0x7F]), (128, &[0x80, 0x01]), (16383, &[0xFF, 0x7F]),
        (16384, &[0x80, 0x80, 0x01]), (16385, &[0x81, 0x80, 0x01]), (65535, &[0xFF, 0xFF, 0x03]),
    ];
    for (v, b) in u16_tab {
        l.eval();
        let got = postcard::to_allocvec(v).unwrap();
        if got != *b {
            return Err(fail("wire", format!("spec table u16 {}: got {}", v, hex(&got)), case_json(&Shape::U16, &Value::U(*v as u128))));
        }
    }
    let i16_tab: &[(i16, &[u8])] = &[
        (0, &[0x00]), (-1, &[0x01]), (1, &[0x02]), (63, &[0x7E]), (-64, &[0x7F]), (64, &[0x80, 0x01]),
        (-65, &[0x81, 0x01]), (32767, &[0xFE, 0xFF, 0x03]), (-32768, &[0xFF, 0xFF, 0x03]),
    ];
    for (v, b) in i16_tab {
        l.eval();
        let got = postcard::to_allocvec(v).unwrap();
        if got != *b {
            return Err(fail("wire", format!("spec table i16 {}: got {}", v, hex(&got)), case_json(&Shape::I16, &Value::I(*v as i128))));
        }
    }
    l.eval();
    if postcard::to_allocvec(&-32.005859375f32).unwrap() != [0x00, 0x06, 0x00, 0xc2] {
        return Err(fail("wire", "spec f32 example", case_json(&Shape::F32, &Value::F32((-32.005859375f32).to_bits()))));
    }
    l.eval();
    if postcard::to_allocvec(&-32.005859375f64).unwrap() != [0x00, 0x00, 0x00, 0x00, 0xc0, 0x00, 0x40, 0xc0] {
        return Err(fail("wire", "spec f64 example", case_json(&Shape::F64, &Value::F64((-32.005859375f64).to_bits()))));
    }
    Ok(())
}

pub fn run(ctx: &Ctx) {
    ctx.set_rule(
        "cases: spec tables; exhaustive u16/i16; proptest (shape,value) trees incl. usize/isize, Display-collected \
         strings split into pieces, unknown-length seq/map; bit-length-stratified integers. oracle: byte equality with \
         a reference encoder written from spec/src/wire-format.md. non-trivial = encoding contains a multi-byte \
         varint, a float or a composite header (option tag, length prefix, discriminant), or an unknown-length \
         refusal; distinct = hash(shape, bytes)",
    );
    ctx.serial("human-readable-flag", check_human_readable_flag_c02);
    ctx.assume("reference encoder harness/src/refcodec.rs is written from the spec only and self-tested on the spec's tables");
    ctx.serial("spec-tables", spec_tables);

    ctx.par_range("exhaustive-u16-i16", 131072, |i, l| {
        let (s, v) = if i < 65536 {
            (Shape::U16, Value::U(i as u128))
        } else {
            (Shape::I16, Value::I(i as i128 - 65536 - 32768))
        };
        let before = l.nontrivial.len();
        let r = check(&s, &v, l);
        if l.nontrivial.len() > before {
            l.nontrivial.clear();
            l.nontrivial_enum(1);
        }
        r
    });
    ctx.exhausted("all u16 and i16 values");

    let scfg = ShapeCfg { encoder_only: true, ..ShapeCfg::default() };
    let n = ctx.tier.pick(600_000, 8_000_000);
    ctx.par_proptest("random-trees", n, || gen::arb_typed(scfg.clone(), ValCfg::default()), |(s, v), l| check(s, v, l));

    // counts at every varint length boundary up to four bytes (strings, byte arrays, sequences, maps, Display text)
    {
        let lens: Vec<usize> = vec![127, 128, 129, 16383, 16384, 16385, 20000, 32768, 40000, 65535, 65536, 2097151, 2097152, 2097153, 3000000, 4194303, 4194304];
        let lens = &lens;
        let kinds = 6usize;
        ctx.par_range("long-counts", (lens.len() * kinds) as u64, move |i, l| {
            let i = i as usize;
            let n = lens[i % lens.len()];
            let (s, v): (Shape, Value) = match i / lens.len() {
                0 => (Shape::Str, Value::Str("s".repeat(n))),
                1 => (Shape::ByteBuf, Value::Bytes(vec![0xC3; n])),
                2 => (Shape::Seq(Box::new(Shape::Bool)), Value::List(vec![Value::Bool(true); n.min(300_000)])),
                3 => (Shape::Seq(Box::new(Shape::Unit)), Value::List(vec![Value::Unit; n.min(300_000)])),
                4 => (Shape::Map(Box::new(Shape::Unit), Box::new(Shape::U8)), Value::Map(vec![(Value::Unit, Value::U(1)); n.min(70_000)])),
                _ => {
                    let text = "d".repeat(n);
                    (Shape::Tuple(vec![Shape::DisplayStr, Shape::U8]), Value::List(vec![Value::Pieces(text.as_bytes().chunks(4096).map(|c| String::from_utf8(c.to_vec()).unwrap()).collect()), Value::U(1)]))
                }
            };
            l.class("long-count");
            check(&s, &v, l)
        });
    }
    // integers of every width, stratified by bit length
    let n = ctx.tier.pick(800_000, 8_000_000);
    ctx.par_proptest(
        "stratified-integers",
        n,
        || {
            prop_oneof![
                gen::arb_unsigned(16).prop_map(|v| (Shape::U16, Value::U(v))),
                gen::arb_unsigned(32).prop_map(|v| (Shape::U32, Value::U(v))),
                gen::arb_unsigned(64).prop_map(|v| (Shape::U64, Value::U(v))),
                gen::arb_unsigned(64).prop_map(|v| (Shape::Usize, Value::U(v))),
                gen::arb_unsigned(128).prop_map(|v| (Shape::U128, Value::U(v))),
                gen::arb_signed(16).prop_map(|v| (Shape::I16, Value::I(v))),
                gen::arb_signed(32).prop_map(|v| (Shape::I32, Value::I(v))),
                gen::arb_signed(64).prop_map(|v| (Shape::I64, Value::I(v))),
                gen::arb_signed(64).prop_map(|v| (Shape::Isize, Value::I(v))),
                gen::arb_signed(128).prop_map(|v| (Shape::I128, Value::I(v))),
            ]
        },
        |(s, v), l| check(s, v, l),
    );

    // Display-collected strings around the 127/128 length boundary, split into pieces
    let n = ctx.tier.pick(60_000, 600_000);
    ctx.par_proptest(
        "display-strings",
        n,
        || gen::arb_value(&Shape::DisplayStr, ValCfg { max_len: 16385, max_seq: 2 }),
        |v, l| check(&Shape::DisplayStr, v, l),
    );

    // Display impls that emit a short piece, a long piece, a short piece (every order of sizes around typical staging sizes)
    {
        let sizes = [0usize, 1, 7, 15, 16, 17, 31, 32, 33, 63, 64, 65, 100, 127, 128, 129, 200];
        let total = (sizes.len() * sizes.len() * 4) as u64;
        ctx.par_range("display-piece-sizes", total, move |i, l| {
            let i = i as usize;
            let a = sizes[i % sizes.len()];
            let b = sizes[(i / sizes.len()) % sizes.len()];
            let c = [0usize, 3, 64, 70][i / (sizes.len() * sizes.len())];
            // four pieces so that every formatter route of the Display double gets one
            let pieces = vec!["E".repeat(a), "m".repeat(b), "t".repeat(c), "é".repeat(a % 5)];
            l.class("display-piece-sizes");
            check(&Shape::DisplayStr, &Value::Pieces(pieces.clone()), l)?;
            check(&Shape::Tuple(vec![Shape::U8, Shape::DisplayStr, Shape::U16]), &Value::List(vec![Value::U(1), Value::Pieces(pieces), Value::U(300)]), l)
        });
    }
    if ctx.tier == Tier::Thorough {
        ctx.par_range("exhaustive-f32", 1u64 << 32, |i, l| {
            l.eval();
            let got = postcard::to_allocvec(&f32::from_bits(i as u32)).unwrap();
            let want = [(i & 0xFF) as u8, ((i >> 8) & 0xFF) as u8, ((i >> 16) & 0xFF) as u8, ((i >> 24) & 0xFF) as u8];
            if got != want {
                return Err(fail("wire", format!("f32 bits {:#x} encoded as {}", i, hex(&got)), case_json(&Shape::F32, &Value::F32(i as u32))));
            }
            l.nontrivial_enum(1);
            Ok(())
        });
        ctx.exhausted("all 2^32 f32 bit patterns");
    }

    super::corpus_checks::c02(ctx);
}
