//! C04 — decoding untrusted bytes is total, in-bounds and resource-bounded.

use super::common::*;
use crate::alloc::measure;
use crate::dynshape::{with_shape, Dyn, Shape, Value};
use crate::gen::{self, ShapeCfg, ValCfg};
use crate::guard::{Flush, GuardArena};
use crate::mutate;
use crate::refcodec::{ref_decode, ref_encode, DecErr};
use crate::runner::{clear_pending, fail, hex, no_panic, set_pending, CaseResult, Ctx, Local};
use proptest::prelude::*;
use serde::Deserialize;
use serde_json::{json, Value as Json};
use std::cell::RefCell;
use std::collections::{BTreeSet, VecDeque};

thread_local! {
    static ARENA: RefCell<GuardArena> = RefCell::new(GuardArena::new(1 << 16));
    static SCRATCH: RefCell<GuardArena> = RefCell::new(GuardArena::new(1 << 16));
}

/// (i)+(ii): decode `input` as `shape` in a guard-paged buffer, both placements; never panic;
/// Ok results carry borrowed data exactly at the spans the reference decoder predicts.
pub fn check_total(shape: &Shape, input: &[u8], adversarial: bool, l: &mut Local) -> CaseResult {
    let cj = || case_bytes_json(shape, input);
    let reference = ref_decode(shape, input);
    if reference.as_ref().err() == Some(&DecErr::ZeroWidthSkip) {
        l.skipped += 1;
        return Ok(());
    }
    set_pending(&cj().to_string());
    for flush in [Flush::End, Flush::Start] {
        l.eval();
        let outcome = ARENA.with(|a| -> Result<Option<bool>, crate::runner::Fail> {
            let mut a = a.borrow_mut();
            let buf: &[u8] = a.load(input, flush);
            let base = buf.as_ptr() as usize;
            let (r, log) = with_shape(shape, || no_panic(|| postcard::take_from_bytes::<Dyn>(buf).map(|(d, rem)| (d, rem.as_ptr() as usize, rem.len()))));
            let r = r.map_err(|p| fail("total", format!("take_from_bytes panicked: {}", p), cj()))?;
            if log.skipped_zero_width {
                return Ok(None);
            }
            match (&r, &reference) {
                (Ok((Dyn(v), rp, rl)), Ok(d)) => {
                    if *v != d.value || *rl != input.len() - d.consumed || (*rl > 0 && *rp != base + d.consumed) {
                        return Err(fail("total", "accepted input decoded differently from the reference (value / remainder)", cj()));
                    }
                    if log.borrows.len() != d.payload_spans.len() {
                        return Err(fail("total", format!("{} borrowed items, reference predicts {}", log.borrows.len(), d.payload_spans.len()), cj()));
                    }
                    for ((p, n), (off, m)) in log.borrows.iter().zip(&d.payload_spans) {
                        if n != m || *p != base + off {
                            return Err(fail(
                                "total",
                                format!("borrowed item at input offset {} (len {}), it was encoded at offset {} (len {})", p.wrapping_sub(base), n, off, m),
                                cj(),
                            ));
                        }
                    }
                    Ok(Some(!log.borrows.is_empty()))
                }
                (Err(_), Err(_)) => Ok(Some(true)),
                (Ok(_), Err(k)) => Err(fail("total", format!("accepted an input the specification rejects ({:?})", k), cj())),
                (Err(e), Ok(_)) => Err(fail("total", format!("rejected ({:?}) an input the specification allows", e), cj())),
            }
        })?;
        let Some(nontrivial) = outcome else {
            l.skipped += 1;
            clear_pending();
            return Ok(());
        };
        if nontrivial || adversarial {
            l.nontrivial(&(shape, input));
        }
    }
    // reader-based decoding: scratch between guard pages, borrowed data inside the scratch
    for (k, flush) in [Flush::End, Flush::Start].into_iter().enumerate() {
        l.eval();
        let scratch_len = if k == 0 { input.len() } else { input.len() / 2 };
        SCRATCH.with(|a| -> CaseResult {
            let mut a = a.borrow_mut();
            let scratch: &mut [u8] = a.slice(scratch_len, flush);
            let (lo, hi) = (scratch.as_ptr() as usize, scratch.as_ptr() as usize + scratch_len);
            let (r, log) = with_shape(shape, || {
                no_panic(|| {
                    let rd: &[u8] = input;
                    postcard::from_io::<Dyn, _>((rd, scratch)).map(|(d, (rest, _))| (d, rest.len()))
                })
            });
            let r = r.map_err(|p| fail("total", format!("from_io panicked: {}", p), cj()))?;
            if log.skipped_zero_width {
                return Ok(());
            }
            if let Ok((Dyn(v), rest)) = &r {
                match &reference {
                    Ok(d) if d.value == *v && input.len() - rest == d.consumed => {}
                    _ => return Err(fail("total", "from_io accepted / consumed differently from the reference", cj())),
                }
                for (p, n) in &log.borrows {
                    if *n > 0 && (*p < lo || p + n > hi) {
                        return Err(fail("total", "from_io handed out borrowed data outside the scratch buffer", cj()));
                    }
                }
            } else if scratch_len >= input.len() && reference.is_ok() {
                return Err(fail("total", format!("from_io rejected ({:?}) a valid message with roomy scratch", r.err()), cj()));
            }
            Ok(())
        })?;
    }
    clear_pending();
    l.class(match &reference {
        Ok(_) => "accepted",
        Err(_) => "rejected",
    });
    if adversarial {
        l.class("adversarial-length");
    }
    l.sample(|| format!("{:?} <= {} : {:?}", shape.kind_name(), hex(&input[..input.len().min(32)]), reference.as_ref().map(|d| d.consumed).map_err(|e| *e)));
    Ok(())
}

/// A deserializer over reader storage that is used again after a request failed (scratch too small, input exhausted):
/// whatever it answers, nothing is written outside the scratch buffer (guard pages on both sides), borrowed data and the
/// scratch handed back by `finalize` lie inside it.
pub fn check_reader_reuse(shape: &Shape, stream: &[u8], scratch_len: usize, flush_start: bool, l: &mut Local) -> CaseResult {
    use serde::Deserialize;
    let cj = || {
        let mut j = case_bytes_json(shape, stream);
        j["reader_reuse"] = json!(true);
        j["scratch"] = json!(scratch_len);
        j["flush_start"] = json!(flush_start);
        j
    };
    if ref_decode(shape, stream).err() == Some(DecErr::ZeroWidthSkip) {
        l.skipped += 1;
        return Ok(());
    }
    set_pending(&cj().to_string());
    l.eval();
    let r = SCRATCH.with(|a| -> CaseResult {
        let mut a = a.borrow_mut();
        let scratch: &mut [u8] = a.slice(scratch_len, if flush_start { Flush::Start } else { Flush::End });
        let (lo, hi) = (scratch.as_ptr() as usize, scratch.as_ptr() as usize + scratch_len);
        let (r, log) = with_shape(shape, || {
            no_panic(|| {
                let rd: &[u8] = stream;
                let mut de = postcard::Deserializer::from_flavor(postcard::de_flavors::io::io::IOReader::new(rd, scratch));
                let mut oks = 0;
                for _ in 0..3 {
                    if Dyn::deserialize(&mut de).is_ok() {
                        oks += 1;
                    }
                }
                let fin = de.finalize().map(|(_, rest)| (rest.as_ptr() as usize, rest.len()));
                (oks, fin)
            })
        });
        let (_oks, fin) = r.map_err(|p| fail("total", format!("decoding through a reused reader deserializer panicked: {}", p), cj()))?;
        if log.skipped_zero_width {
            return Ok(());
        }
        for (p, n) in &log.borrows {
            if *n > 0 && (*p < lo || p + n > hi) {
                return Err(fail("total", format!("borrowed data at {:#x}+{} lies outside the scratch buffer {:#x}..{:#x}", p, n, lo, hi), cj()));
            }
        }
        if let Ok((p, n)) = fin {
            if p < lo || p + n > hi {
                return Err(fail(
                    "total",
                    format!("finalize() handed back a scratch slice at offset {} (len {}) of a {}-byte scratch buffer", (p as i128) - (lo as i128), n, scratch_len),
                    cj(),
                ));
            }
        }
        Ok(())
    });
    clear_pending();
    r?;
    l.class("reader-reused-after-error");
    l.nontrivial(&(shape, stream, scratch_len, 9u8));
    Ok(())
}

/// adversarial length prefixes planted in a valid encoding
fn check_adversarial(shape: &Shape, value: &Value, l: &mut Local) -> CaseResult {
    let e = ref_encode(shape, value).unwrap();
    check_total(shape, &e.bytes, false, l)?;
    let mut n_done = 0;
    for (idx, &(off, len, bits)) in e.varint_spans.iter().enumerate() {
        if bits != 64 || n_done >= 6 {
            continue;
        }
        n_done += 1;
        let remaining = (e.bytes.len() - off - len) as u128;
        let mut claims: Vec<u128> = vec![remaining + 1, remaining, usize::MAX as u128 / 2, usize::MAX as u128, (1u128 << 63), (1u128 << 32) + 1];
        for k in [7u32, 8, 14, 16, 20, 21, 28, 31] {
            claims.push(1u128 << k);
            claims.push((1u128 << k) - 1);
        }
        for c in claims {
            let bad = mutate::replace_varint(&e, idx, c);
            check_total(shape, &bad, true, l)?;
        }
    }
    Ok(())
}

// ------------------------------------------------------------------ (iii) allocation bound

struct Real {
    name: &'static str,
    elem: usize,
    /// decode, return Ok(accepted?) ; panics are caught by the caller
    run: fn(&[u8]) -> bool,
}

fn d<'a, T: Deserialize<'a>>(b: &'a [u8]) -> bool {
    postcard::take_from_bytes::<T>(b).is_ok()
}

/// the same decode through a byte reader with a scratch buffer of the given size
fn dr<T: serde::de::DeserializeOwned>(b: &[u8], scratch: &mut [u8]) -> bool {
    postcard::from_io::<T, _>((b, scratch)).is_ok()
}
fn dre<T: serde::de::DeserializeOwned>(b: &[u8], scratch: &mut [u8]) -> bool {
    postcard::from_eio::<T, _>((b, scratch)).is_ok()
}

struct RealReader {
    name: &'static str,
    elem: usize,
    run: fn(&[u8], &mut [u8]) -> bool,
}

fn real_readers() -> Vec<RealReader> {
    vec![
        RealReader { name: "io:Vec<u8>", elem: 1, run: |b, s| dr::<Vec<u8>>(b, s) },
        RealReader { name: "io:Vec<u64>", elem: 8, run: |b, s| dr::<Vec<u64>>(b, s) },
        RealReader { name: "io:Vec<String>", elem: 24, run: |b, s| dr::<Vec<String>>(b, s) },
        RealReader { name: "io:String", elem: 1, run: |b, s| dr::<String>(b, s) },
        RealReader { name: "io:Vec<(u8,u32,f64)>", elem: 16, run: |b, s| dr::<Vec<(u8, u32, f64)>>(b, s) },
        RealReader { name: "io:VecDeque<u32>", elem: 4, run: |b, s| dr::<VecDeque<u32>>(b, s) },
        RealReader { name: "io:Box<[u8]>", elem: 1, run: |b, s| dr::<Box<[u8]>>(b, s) },
        RealReader { name: "eio:Vec<u8>", elem: 1, run: |b, s| dre::<Vec<u8>>(b, s) },
        RealReader { name: "eio:Vec<u64>", elem: 8, run: |b, s| dre::<Vec<u64>>(b, s) },
        RealReader { name: "eio:Vec<Vec<u8>>", elem: 24, run: |b, s| dre::<Vec<Vec<u8>>>(b, s) },
        RealReader { name: "eio:String", elem: 1, run: |b, s| dre::<String>(b, s) },
    ]
}

/// Reader-based decoding: what is requested from the allocator is bounded by a multiple of the
/// bytes the decoder could possibly have seen or been given room for (input + scratch).
pub fn check_alloc_reader(ri: usize, input: &[u8], scratch_len: usize, l: &mut Local) -> CaseResult {
    let rs = real_readers();
    let r = &rs[ri % rs.len()];
    let cj = || json!({"real_reader": r.name, "input": hex(input), "scratch": scratch_len});
    let mut scratch = vec![0u8; scratch_len];
    l.eval();
    set_pending(&cj().to_string());
    let (res, m) = crate::alloc::measure_limited(ALLOC_CEILING, || no_panic(|| (r.run)(input, &mut scratch)));
    clear_pending();
    let accepted = res.map_err(|p| fail("alloc", format!("decoding {} panicked: {}", r.name, p), cj()))?;
    // (+ a fixed allowance: a small constant pre-allocation is not what the statement is about)
    let bound = ALLOC_FACTOR * r.elem.max(1) * (input.len() + scratch_len + 8) + ALLOC_SLACK;
    if m.bytes > bound {
        return Err(fail(
            "alloc",
            format!(
                "decoding {} input bytes as {} through a reader with {} scratch bytes requested {} bytes from the allocator (largest single request {}), bound {} = {}*{}*(len+scratch+8)",
                input.len(), r.name, scratch_len, m.bytes, m.largest, bound, ALLOC_FACTOR, r.elem.max(1)
            ),
            cj(),
        ));
    }
    l.class(if accepted { "alloc-reader-accepted" } else { "alloc-reader-rejected" });
    l.nontrivial(&(r.name, input, scratch_len));
    Ok(())
}

fn reals() -> Vec<Real> {
    vec![
        Real { name: "Vec<u8>", elem: 1, run: |b| d::<Vec<u8>>(b) },
        Real { name: "Vec<u64>", elem: 8, run: |b| d::<Vec<u64>>(b) },
        Real { name: "Vec<u128>", elem: 16, run: |b| d::<Vec<u128>>(b) },
        Real { name: "Vec<String>", elem: 24, run: |b| d::<Vec<String>>(b) },
        Real { name: "Vec<Vec<u8>>", elem: 24, run: |b| d::<Vec<Vec<u8>>>(b) },
        Real { name: "Vec<(u8,u32,f64)>", elem: 16, run: |b| d::<Vec<(u8, u32, f64)>>(b) },
        Real { name: "Vec<Option<[u64;4]>>", elem: 40, run: |b| d::<Vec<Option<[u64; 4]>>>(b) },
        Real { name: "String", elem: 1, run: |b| d::<String>(b) },
        Real { name: "Box<str>", elem: 1, run: |b| d::<Box<str>>(b) },
        Real { name: "Box<[u8]>", elem: 1, run: |b| d::<Box<[u8]>>(b) },
        Real { name: "Box<[u32]>", elem: 4, run: |b| d::<Box<[u32]>>(b) },
        Real { name: "CString", elem: 1, run: |b| d::<std::ffi::CString>(b) },
        Real { name: "VecDeque<u32>", elem: 4, run: |b| d::<VecDeque<u32>>(b) },
        Real { name: "BTreeSet<u16>", elem: 8, run: |b| d::<BTreeSet<u16>>(b) },
        Real { name: "heapless::Vec<u16,8>", elem: 2, run: |b| d::<heapless07::Vec<u16, 8>>(b) },
        Real { name: "heapless::String<8>", elem: 1, run: |b| d::<heapless07::String<8>>(b) },
        Real { name: "&str", elem: 1, run: |b| d::<&str>(b) },
        Real { name: "&[u8]", elem: 1, run: |b| d::<&[u8]>(b) },
        Real { name: "(Vec<u64>, String)", elem: 8, run: |b| d::<(Vec<u64>, String)>(b) },
        Real { name: "Option<Vec<char>>", elem: 4, run: |b| d::<Option<Vec<char>>>(b) },
        Real { name: "Vec<Option<u8>>", elem: 2, run: |b| d::<Vec<Option<u8>>>(b) },
        Real { name: "Vec<(Option<u8>,Option<u16>)>", elem: 6, run: |b| d::<Vec<(Option<u8>, Option<u16>)>>(b) },
        Real { name: "Vec<Option<String>>", elem: 24, run: |b| d::<Vec<Option<String>>>(b) },
        Real { name: "Vec<Option<Option<u32>>>", elem: 12, run: |b| d::<Vec<Option<Option<u32>>>>(b) },
    ]
}

pub const ALLOC_FACTOR: usize = 64;
/// fixed allowance added to every allocation bound
pub const ALLOC_SLACK: usize = 4096;
/// a decode that asks for more than this in total is cut off (allocation refused -> abort -> reported with the pending case)
pub const ALLOC_CEILING: usize = 1 << 30;

pub fn check_alloc(ri: usize, input: &[u8], l: &mut Local) -> CaseResult {
    let rs = reals();
    let r = &rs[ri % rs.len()];
    let cj = || json!({"real": r.name, "input": hex(input)});
    l.eval();
    set_pending(&cj().to_string());
    let (res, m) = crate::alloc::measure_limited(ALLOC_CEILING, || no_panic(|| (r.run)(input)));
    clear_pending();
    let accepted = res.map_err(|p| fail("alloc", format!("decoding {} panicked: {}", r.name, p), cj()))?;
    let bound = ALLOC_FACTOR * r.elem.max(1) * (input.len() + 8) + ALLOC_SLACK;
    if m.bytes > bound {
        return Err(fail(
            "alloc",
            format!(
                "decoding {} bytes as {} requested {} bytes from the allocator (largest single request {}), bound {} = {}*{}*(len+8) + 4096",
                input.len(), r.name, m.bytes, m.largest, bound, ALLOC_FACTOR, r.elem.max(1)
            ),
            cj(),
        ));
    }
    // maps are outside the allocation clause, but decoding them must still be total
    no_panic(|| {
        let _ = postcard::from_bytes::<std::collections::HashMap<u8, u8>>(input);
        let _ = postcard::from_bytes::<std::collections::BTreeMap<u16, String>>(input);
        let _ = postcard::from_bytes::<Vec<std::collections::HashMap<String, u32>>>(input);
    })
    .map_err(|p| fail("alloc", format!("decoding a map from these bytes panicked: {}", p), cj()))?;
    l.class(if accepted { "alloc-accepted" } else { "alloc-rejected" });
    l.nontrivial(&(r.name, input));
    l.sample(|| format!("{} <= {} : accepted={} allocated={}B", r.name, hex(&input[..input.len().min(24)]), accepted, m.bytes));
    Ok(())
}

// ------------------------------------------------------------------ (iv) requests the format cannot serve

#[derive(Deserialize, Debug)]
#[serde(untagged)]
#[allow(dead_code)]
enum Untagged {
    A(u8),
    B(String),
}

#[derive(Deserialize, Debug)]
#[serde(tag = "t")]
#[allow(dead_code)]
enum Internally {
    A { x: u8 },
    B,
}

#[derive(Debug)]
struct Ident;
impl<'de> Deserialize<'de> for Ident {
    fn deserialize<D: serde::Deserializer<'de>>(d: D) -> Result<Self, D::Error> {
        struct V;
        impl<'de> serde::de::Visitor<'de> for V {
            type Value = Ident;
            fn expecting(&self, f: &mut std::fmt::Formatter) -> std::fmt::Result {
                f.write_str("identifier")
            }
            fn visit_u64<E>(self, _: u64) -> Result<Ident, E> {
                Ok(Ident)
            }
            fn visit_u32<E>(self, _: u32) -> Result<Ident, E> {
                Ok(Ident)
            }
            fn visit_str<E>(self, _: &str) -> Result<Ident, E> {
                Ok(Ident)
            }
            fn visit_bytes<E>(self, _: &[u8]) -> Result<Ident, E> {
                Ok(Ident)
            }
        }
        d.deserialize_identifier(V)
    }
}

fn wont(input: &[u8], which: usize) -> Result<Option<postcard::Error>, String> {
    no_panic(|| match which {
        0 => postcard::from_bytes::<serde_json::Value>(input).err(),
        1 => postcard::from_bytes::<Untagged>(input).err(),
        2 => postcard::from_bytes::<Internally>(input).err(),
        3 => postcard::from_bytes::<Ident>(input).err(),
        4 => postcard::from_bytes::<serde::de::IgnoredAny>(input).err(),
        5 => postcard::from_bytes::<(u8, serde::de::IgnoredAny)>(input).err(),
        _ => postcard::from_bytes::<Vec<serde_json::Value>>(input).err(),
    })
}

pub fn check_wont(input: &[u8], which: usize, l: &mut Local) -> CaseResult {
    let which = which % 7;
    let cj = || json!({"wont": which, "input": hex(input)});
    l.eval();
    let e = wont(input, which).map_err(|p| fail("wont", format!("panicked: {}", p), cj()))?;
    // the statement asks for "an error"; which kind is not prescribed (upstream: WontImplement)
    let ok = match which {
        6 => {
            // Vec<Value>: an empty sequence never asks for an element; otherwise refusal (or a length-prefix error)
            match ref_decode(&Shape::U64, input) {
                Ok(dd) if dd.value == Value::U(0) => e.is_none(),
                _ => e.is_some(),
            }
        }
        _ => e.is_some(),
    };
    if !ok {
        return Err(fail("wont", format!("request the format cannot serve (case {}) gave {:?}, expected an error", which, e), cj()));
    }
    if e == Some(postcard::Error::WontImplement) {
        l.class("refused-with-WontImplement");
    }
    l.nontrivial(&(which, input, 3u8));
    l.class("refused-any/identifier/ignored");
    Ok(())
}

pub fn replay(case: &Json, l: &mut Local) -> CaseResult {
    if let Some(r) = super::corpus_checks::replay_corpus(case, l) {
        return r;
    }
    if let Some(name) = case.get("real").and_then(|r| r.as_str()) {
        let ri = reals().iter().position(|r| r.name == name).unwrap_or(0);
        return check_alloc(ri, &input_of(case), l);
    }
    if let Some(name) = case.get("real_reader").and_then(|r| r.as_str()) {
        let ri = real_readers().iter().position(|r| r.name == name).unwrap_or(0);
        return check_alloc_reader(ri, &input_of(case), case["scratch"].as_u64().unwrap_or(0) as usize, l);
    }
    if case.get("reader_reuse").is_some() {
        return check_reader_reuse(&shape_of(case), &input_of(case), case["scratch"].as_u64().unwrap_or(0) as usize, case["flush_start"].as_bool().unwrap_or(true), l);
    }
    if let Some(w) = case.get("wont").and_then(|w| w.as_u64()) {
        return check_wont(&input_of(case), w as usize, l);
    }
    check_total(&shape_of(case), &input_of(case), false, l)
}

/// varint(claim) ++ payload
fn with_claim(claim: u64, payload: &[u8]) -> Vec<u8> {
    let mut v = ref_encode(&Shape::U64, &Value::U(claim as u128)).unwrap().bytes;
    v.extend_from_slice(payload);
    v
}

pub fn run(ctx: &Ctx) {
    ctx.set_rule(
        "cases: random bytes, valid encodings with single-byte corruptions / prefixes / length varints replaced by remaining+1, \
         2^k, 2^k-1, usize::MAX/2, usize::MAX, x generated shapes; every input decoded in a buffer flush against a PROT_NONE page \
         at either end, and through from_io with a guard-paged scratch buffer; 20 real collection types under a counting allocator \
         with adversarial claimed lengths, from slices and (11 of them) through from_io / from_eio with small scratch buffers; 7 types that ask for deserialize_any / identifier / ignored_any. oracle: Ok or Err (no \
         panic, no fault), agreement with the reference decoder, borrowed items exactly at their encoded input offsets (inside the \
         scratch for readers), bytes requested <= 64*max(size_of Elem,1)*(len+8) + 4096 (readers: len+scratch+8), any/identifier/ignored requests answered with an error. non-trivial = rejected input, \
         accepted input with a borrowed field, or adversarial length; distinct = hash(type, input)",
    );
    ctx.assume("allocation bound evaluated for strings, byte buffers and sequences of non-zero-width elements decoded from slices (maps and zero-width elements are outside the statement)");
    ctx.assume("a stray access outside input or scratch faults on a guard page and is reported by the signal handler");
    let scfg = ShapeCfg { allow_zero_width_elems: true, ..ShapeCfg::default() };
    let n = ctx.tier.pick(300_000, 5_000_000);
    ctx.par_proptest(
        "random-bytes",
        n,
        || {
            (
                gen::arb_shape(scfg.clone()),
                proptest::collection::vec(prop_oneof![4 => 0u8..5, 2 => any::<u8>(), 1 => Just(0x80u8), 1 => Just(0xFFu8)], 0..64),
            )
        },
        |(s, b), l| check_total(s, b, false, l),
    );
    let n = ctx.tier.pick(30_000, 400_000);
    ctx.par_proptest(
        "adversarial-lengths",
        n,
        || gen::arb_typed(scfg.clone(), ValCfg { max_len: 130, max_seq: 4 }),
        |(s, v), l| check_adversarial(s, v, l),
    );
    ctx.par_proptest(
        "corrupted-valid",
        n,
        || (gen::arb_typed(scfg.clone(), ValCfg { max_len: 60, max_seq: 4 }), proptest::collection::vec((any::<u16>(), any::<u8>()), 1..4)),
        |((s, v), dmg), l| {
            let e = ref_encode(s, v).unwrap();
            let mut b = e.bytes.clone();
            if b.is_empty() {
                return Ok(());
            }
            for (p, x) in dmg {
                let i = gen::pick_idx(*p, b.len());
                b[i] = *x;
            }
            check_total(s, &b, false, l)?;
            let cut = gen::pick_idx(dmg[0].0, b.len());
            check_total(s, &b[..cut], false, l)
        },
    );
    // char payloads: every combination of UTF-8 boundary bytes under every length prefix 0..=5, alone and inside a
    // struct after a borrowed string (grid, exhaustive)
    {
        const LEAD: [u8; 22] = [0x00, 0x41, 0x7F, 0x80, 0xBF, 0xC0, 0xC1, 0xC2, 0xDF, 0xE0, 0xE1, 0xEC, 0xED, 0xEE, 0xEF, 0xF0, 0xF1, 0xF3, 0xF4, 0xF5, 0xF8, 0xFF];
        const CONT: [u8; 9] = [0x00, 0x7F, 0x80, 0x8F, 0x90, 0x9F, 0xA0, 0xBF, 0xC0];
        let per_len = (LEAD.len() * CONT.len() * CONT.len() * CONT.len()) as u64;
        let shapes = [
            Shape::Char,
            Shape::Tuple(vec![Shape::Str, Shape::Char, Shape::U8]),
            Shape::Seq(Box::new(Shape::Char)),
        ];
        ctx.par_range("char-payload-grid", 6 * per_len, |i, l| {
            let len = (i / per_len) as u8;
            let mut k = (i % per_len) as usize;
            let a = LEAD[k % LEAD.len()];
            k /= LEAD.len();
            let b = CONT[k % 9];
            k /= 9;
            let c = CONT[k % 9];
            k /= 9;
            let d = CONT[k % 9];
            let payload = [len, a, b, c, d, 0x01];
            check_total(&shapes[0], &payload, true, l)?;
            let mut t = vec![0x02, b'h', b'i'];
            t.extend_from_slice(&payload);
            check_total(&shapes[1], &t, true, l)?;
            let mut q = vec![0x01];
            q.extend_from_slice(&payload);
            check_total(&shapes[2], &q, true, l)
        });
    }
    // reader deserializers used again after a failed request
    ctx.par_proptest(
        "reader-reuse-after-error",
        n,
        || {
            (
                gen::arb_typed(scfg.clone(), ValCfg { max_len: 40, max_seq: 3 }),
                proptest::collection::vec(prop_oneof![3 => 0u8..5, 1 => any::<u8>()], 0..12),
                any::<u16>(),
                any::<bool>(),
                0usize..3,
            )
        },
        |((s, v), extra, sl, fs, copies), l| {
            let e = ref_encode(s, v).unwrap();
            let mut stream = vec![];
            for _ in 0..=*copies {
                stream.extend_from_slice(&e.bytes);
            }
            stream.extend_from_slice(extra);
            let scratch_len = gen::pick_idx(*sl, e.bytes.len() + 2);
            check_reader_reuse(s, &stream, scratch_len, *fs, l)
        },
    );
    // long inputs (up to 4 kB)
    ctx.par_proptest(
        "long-inputs",
        n / 6,
        || (gen::arb_shape(scfg.clone()), proptest::collection::vec(prop_oneof![6 => 0u8..3, 1 => any::<u8>()], 256..4096)),
        |(s, b), l| check_total(s, b, false, l),
    );

    // (iii) allocation bound on real collections
    let nr = reals().len();
    let n = ctx.tier.pick(600_000, 8_000_000);
    ctx.par_proptest(
        "alloc-claimed-lengths",
        n,
        || {
            (
                0..nr,
                prop_oneof![
                    3 => (0u32..64).prop_map(|k| 1u64.checked_shl(k).unwrap_or(u64::MAX)),
                    2 => (0u32..64).prop_map(|k| 1u64.checked_shl(k).unwrap_or(u64::MAX).wrapping_sub(1)),
                    2 => 0u64..300,
                    1 => Just(u64::MAX),
                    1 => Just(u64::MAX / 2),
                ],
                proptest::collection::vec(prop_oneof![3 => 0u8..3, 3 => 0x20u8..0x7F, 1 => any::<u8>()], 0..256),
                any::<bool>(),
            )
        },
        |(ri, claim, payload, exact), l| {
            // `exact`: claim exactly what is there (valid-looking), else the adversarial claim
            let c = if *exact { payload.len() as u64 } else { *claim };
            check_alloc(*ri, &with_claim(c, payload), l)?;
            // one below / above the bytes actually present
            check_alloc(*ri, &with_claim(payload.len() as u64 + 1, payload), l)
        },
    );
    let nrr = real_readers().len();
    ctx.par_proptest(
        "alloc-claimed-lengths-readers",
        n / 2,
        || {
            (
                0..nrr,
                prop_oneof![
                    3 => (0u32..64).prop_map(|k| 1u64.checked_shl(k).unwrap_or(u64::MAX)),
                    2 => 0u64..300,
                    1 => Just(u64::MAX),
                ],
                proptest::collection::vec(prop_oneof![3 => 0u8..3, 3 => 0x20u8..0x7F, 1 => any::<u8>()], 0..128),
                prop_oneof![Just(0usize), Just(16), Just(64), 0usize..300],
                any::<bool>(),
            )
        },
        |(ri, claim, payload, scratch, exact), l| {
            let c = if *exact { payload.len() as u64 } else { *claim };
            check_alloc_reader(*ri, &with_claim(c, payload), *scratch, l)
        },
    );
    ctx.par_proptest(
        "alloc-random-bytes",
        n / 2,
        || (0..nr, proptest::collection::vec(any::<u8>(), 0..256)),
        |(ri, b), l| check_alloc(*ri, b, l),
    );
    // nested claims: Vec<String> / Vec<Vec<u8>> with inner adversarial lengths
    ctx.par_proptest(
        "alloc-nested-claims",
        n / 4,
        || (3usize..5, 1u64..40, any::<u64>(), proptest::collection::vec(0x20u8..0x7F, 0..200)),
        |(ri, outer, inner, payload), l| {
            let mut b = with_claim(*outer, &[]);
            b.extend(with_claim(*inner, payload));
            check_alloc(*ri, &b, l)
        },
    );

    // framed entry points are decoders of untrusted bytes too: never panic, whatever the input
    let nf = ctx.tier.pick(200_000, 3_000_000);
    ctx.par_proptest(
        "framed-decoders-total",
        nf,
        || {
            (
                gen::arb_shape(ShapeCfg { depth: 2, ..ShapeCfg::default() }),
                proptest::collection::vec(prop_oneof![4 => 0u8..6, 2 => any::<u8>(), 1 => Just(0xFFu8)], 0..40),
                0usize..64,
            )
        },
        |(s, b, k), l| {
            let cj = || case_bytes_json(s, b);
            l.eval();
            let apis = super::c10::apis();
            let api = &apis[*k % apis.len()];
            match (api.take)(s, b) {
                Err(p) if p != "skip" => return Err(fail("total", format!("CRC-checked decoding [{}] panicked: {}", api.params.name, p), cj())),
                _ => {}
            }
            match (api.from)(s, b) {
                Err(p) if p != "skip" => return Err(fail("total", format!("CRC-checked decoding [{}] panicked: {}", api.params.name, p), cj())),
                _ => {}
            }
            let mut copy = b.clone();
            let (r, _) = with_shape(s, || no_panic(|| postcard::take_from_bytes_cobs::<Dyn>(&mut copy).map(|(d, _)| d)));
            r.map_err(|p| fail("total", format!("COBS decoding panicked: {}", p), cj()))?;
            // real collections that ask for a size hint, behind a CRC
            let c32 = crc::Crc::<u32>::new(&crc::CRC_32_ISCSI);
            no_panic(|| {
                let _ = postcard::from_bytes_crc32::<Vec<u8>>(b, c32.digest());
                let _ = postcard::from_bytes_crc32::<(u8, Vec<u16>, String)>(b, c32.digest());
                let _ = postcard::from_bytes_crc32::<std::collections::HashMap<u8, u8>>(b, c32.digest());
                let _ = postcard::from_bytes::<std::collections::HashMap<u8, u8>>(b);
                let _ = postcard::from_bytes::<std::collections::HashMap<String, Vec<u8>>>(b);
            })
            .map_err(|p| fail("total", format!("decoding a real collection panicked: {}", p), cj()))?;
            l.nontrivial(&(s, b, 11u8));
            l.class("framed-total");
            Ok(())
        },
    );

    // (iv)
    let n = ctx.tier.pick(200_000, 2_000_000);
    ctx.par_proptest(
        "wont-implement",
        n,
        || (proptest::collection::vec(prop_oneof![2 => 0u8..4, 1 => any::<u8>()], 0..24), 0usize..7),
        |(b, w), l| check_wont(b, *w, l),
    );
}
