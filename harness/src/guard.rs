//! Buffers placed flush against PROT_NONE pages. DESIGN.md §3.5.

use std::ptr;

#[derive(Clone, Copy, Debug, PartialEq, Eq)]
pub enum Flush {
    /// the buffer's last byte is the last byte before an inaccessible page
    End,
    /// the buffer's first byte is the first byte after an inaccessible page
    Start,
}

pub struct GuardBuf {
    base: *mut u8,
    map_len: usize,
    data: *mut u8,
    len: usize,
}

unsafe impl Send for GuardBuf {}

fn page() -> usize {
    unsafe { libc::sysconf(libc::_SC_PAGESIZE) as usize }
}

impl GuardBuf {
    pub fn new(len: usize, flush: Flush) -> GuardBuf {
        let pg = page();
        let data_pages = (len + pg - 1) / pg;
        let data_pages = data_pages.max(1);
        let map_len = (data_pages + 2) * pg;
        unsafe {
            let base = libc::mmap(
                ptr::null_mut(),
                map_len,
                libc::PROT_READ | libc::PROT_WRITE,
                libc::MAP_PRIVATE | libc::MAP_ANONYMOUS,
                -1,
                0,
            );
            assert!(base != libc::MAP_FAILED, "mmap failed");
            let base = base as *mut u8;
            assert_eq!(libc::mprotect(base as *mut _, pg, libc::PROT_NONE), 0);
            assert_eq!(
                libc::mprotect(base.add((data_pages + 1) * pg) as *mut _, pg, libc::PROT_NONE),
                0
            );
            let data = match flush {
                Flush::Start => base.add(pg),
                Flush::End => base.add((data_pages + 1) * pg - len),
            };
            GuardBuf {
                base,
                map_len,
                data,
                len,
            }
        }
    }

    pub fn from_slice(src: &[u8], flush: Flush) -> GuardBuf {
        let mut g = GuardBuf::new(src.len(), flush);
        g.as_mut().copy_from_slice(src);
        g
    }

    pub fn as_ref(&self) -> &[u8] {
        unsafe { std::slice::from_raw_parts(self.data, self.len) }
    }

    pub fn as_mut(&mut self) -> &mut [u8] {
        unsafe { std::slice::from_raw_parts_mut(self.data, self.len) }
    }
}

impl Drop for GuardBuf {
    fn drop(&mut self) {
        unsafe {
            libc::munmap(self.base as *mut _, self.map_len);
        }
    }
}

/// A reusable pair of guard areas (one per placement) big enough for `cap` bytes; avoids an
/// mmap per case.
pub struct GuardArena {
    pg: usize,
    base: *mut u8,
    map_len: usize,
    cap: usize,
}

unsafe impl Send for GuardArena {}

impl GuardArena {
    pub fn new(cap: usize) -> GuardArena {
        let pg = page();
        let data_pages = ((cap + pg - 1) / pg).max(1);
        let map_len = (data_pages + 2) * pg;
        unsafe {
            let base = libc::mmap(
                ptr::null_mut(),
                map_len,
                libc::PROT_READ | libc::PROT_WRITE,
                libc::MAP_PRIVATE | libc::MAP_ANONYMOUS,
                -1,
                0,
            );
            assert!(base != libc::MAP_FAILED, "mmap failed");
            let base = base as *mut u8;
            assert_eq!(libc::mprotect(base as *mut _, pg, libc::PROT_NONE), 0);
            assert_eq!(
                libc::mprotect(base.add((data_pages + 1) * pg) as *mut _, pg, libc::PROT_NONE),
                0
            );
            GuardArena {
                pg,
                base,
                map_len,
                cap: data_pages * pg,
            }
        }
    }

    pub fn capacity(&self) -> usize {
        self.cap
    }

    /// A `len`-byte window flush against the leading or trailing guard page.
    pub fn slice(&mut self, len: usize, flush: Flush) -> &mut [u8] {
        assert!(len <= self.cap, "guard arena too small: {} > {}", len, self.cap);
        unsafe {
            let p = match flush {
                Flush::Start => self.base.add(self.pg),
                Flush::End => self.base.add(self.pg + self.cap - len),
            };
            std::slice::from_raw_parts_mut(p, len)
        }
    }

    pub fn load(&mut self, src: &[u8], flush: Flush) -> &mut [u8] {
        let s = self.slice(src.len(), flush);
        s.copy_from_slice(src);
        s
    }
}

impl Drop for GuardArena {
    fn drop(&mut self) {
        unsafe {
            libc::munmap(self.base as *mut _, self.map_len);
        }
    }
}
