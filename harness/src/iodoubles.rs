//! Chunking / failing Read + Write doubles for std::io and embedded-io 0.6. DESIGN.md §3.9.

use std::io;

#[derive(Clone, Copy, Debug, PartialEq, Eq)]
pub enum Fault {
    None,
    /// hard error once `offset` bytes have been transferred
    ErrorAt(usize),
    /// end of stream (reader) / zero-length write (writer) at `offset`
    EofAt(usize),
}

#[derive(Clone, Debug)]
pub struct Schedule {
    /// maximum bytes per call, cycled
    pub chunks: Vec<usize>,
    /// every n-th call returns Interrupted first (0 = never)
    pub interrupt_every: usize,
}

impl Schedule {
    pub fn whole() -> Schedule {
        Schedule {
            chunks: vec![usize::MAX],
            interrupt_every: 0,
        }
    }
    pub fn bytewise() -> Schedule {
        Schedule {
            chunks: vec![1],
            interrupt_every: 0,
        }
    }
}

#[derive(Debug)]
pub struct EioError(pub embedded_io::ErrorKind);
impl embedded_io::Error for EioError {
    fn kind(&self) -> embedded_io::ErrorKind {
        self.0
    }
}

pub struct ChunkReader<'a> {
    pub data: &'a [u8],
    pub pos: usize,
    pub schedule: Schedule,
    pub fault: Fault,
    pub calls: usize,
    pub largest_request: usize,
}

impl<'a> ChunkReader<'a> {
    pub fn new(data: &'a [u8], schedule: Schedule, fault: Fault) -> Self {
        ChunkReader {
            data,
            pos: 0,
            schedule,
            fault,
            calls: 0,
            largest_request: 0,
        }
    }

    /// Ok(n) bytes delivered, Err(true) = interrupted, Err(false) = hard failure
    fn step(&mut self, buf: &mut [u8]) -> Result<usize, bool> {
        self.calls += 1;
        self.largest_request = self.largest_request.max(buf.len());
        if self.schedule.interrupt_every != 0 && self.calls % self.schedule.interrupt_every == 0 {
            return Err(true);
        }
        if buf.is_empty() {
            return Ok(0);
        }
        let limit = match self.fault {
            Fault::None => self.data.len(),
            Fault::ErrorAt(o) | Fault::EofAt(o) => o.min(self.data.len()),
        };
        if self.pos >= limit {
            return match self.fault {
                Fault::ErrorAt(o) if o <= self.data.len() && self.pos >= o => Err(false),
                _ => Ok(0),
            };
        }
        let chunk = self.schedule.chunks[(self.calls - 1) % self.schedule.chunks.len()].max(1);
        let n = buf.len().min(chunk).min(limit - self.pos);
        buf[..n].copy_from_slice(&self.data[self.pos..self.pos + n]);
        self.pos += n;
        Ok(n)
    }
}

impl io::Read for ChunkReader<'_> {
    fn read(&mut self, buf: &mut [u8]) -> io::Result<usize> {
        match self.step(buf) {
            Ok(n) => Ok(n),
            Err(true) => Err(io::Error::new(io::ErrorKind::Interrupted, "interrupted")),
            Err(false) => Err(io::Error::new(io::ErrorKind::Other, "injected failure")),
        }
    }
}

impl embedded_io::ErrorType for ChunkReader<'_> {
    type Error = EioError;
}

impl embedded_io::Read for ChunkReader<'_> {
    fn read(&mut self, buf: &mut [u8]) -> Result<usize, EioError> {
        loop {
            // embedded-io has no "retry on Interrupted" convention in read_exact, so the eio
            // double turns an interruption into a short (possibly 1-byte) delivery instead.
            match self.step(buf) {
                Ok(n) => return Ok(n),
                Err(true) => continue,
                Err(false) => return Err(EioError(embedded_io::ErrorKind::Other)),
            }
        }
    }
}

pub struct ChunkWriter {
    pub accepted: Vec<u8>,
    pub schedule: Schedule,
    pub fault: Fault,
    pub calls: usize,
    pub flushes: usize,
    pub fail_flush: bool,
    pub writes_after_flush: usize,
    pub vectored_calls: usize,
}

impl ChunkWriter {
    pub fn new(schedule: Schedule, fault: Fault, fail_flush: bool) -> Self {
        ChunkWriter {
            accepted: vec![],
            schedule,
            fault,
            calls: 0,
            flushes: 0,
            fail_flush,
            writes_after_flush: 0,
            vectored_calls: 0,
        }
    }

    fn step(&mut self, buf: &[u8]) -> Result<usize, bool> {
        self.calls += 1;
        if self.flushes > 0 {
            self.writes_after_flush += 1;
        }
        if self.schedule.interrupt_every != 0 && self.calls % self.schedule.interrupt_every == 0 {
            return Err(true);
        }
        if buf.is_empty() {
            return Ok(0);
        }
        let limit = match self.fault {
            Fault::None => usize::MAX,
            Fault::ErrorAt(o) | Fault::EofAt(o) => o,
        };
        if self.accepted.len() >= limit {
            return match self.fault {
                Fault::ErrorAt(_) => Err(false),
                _ => Ok(0),
            };
        }
        let chunk = self.schedule.chunks[(self.calls - 1) % self.schedule.chunks.len()].max(1);
        let n = buf.len().min(chunk).min(limit - self.accepted.len());
        self.accepted.extend_from_slice(&buf[..n]);
        Ok(n)
    }
}

impl io::Write for ChunkWriter {
    fn write(&mut self, buf: &[u8]) -> io::Result<usize> {
        match self.step(buf) {
            Ok(n) => Ok(n),
            Err(true) => Err(io::Error::new(io::ErrorKind::Interrupted, "interrupted")),
            Err(false) => Err(io::Error::new(io::ErrorKind::Other, "injected failure")),
        }
    }
    /// gathered write that takes bytes from several buffers in one call (up to the schedule's limit for this call)
    fn write_vectored(&mut self, bufs: &[io::IoSlice<'_>]) -> io::Result<usize> {
        let joined: Vec<u8> = bufs.iter().flat_map(|b| b.iter().copied()).collect();
        self.vectored_calls += 1;
        io::Write::write(self, &joined)
    }
    fn flush(&mut self) -> io::Result<()> {
        self.flushes += 1;
        // counts data handed over after the most recent flush
        self.writes_after_flush = 0;
        if self.fail_flush {
            Err(io::Error::new(io::ErrorKind::Other, "injected flush failure"))
        } else {
            Ok(())
        }
    }
}

impl embedded_io::ErrorType for ChunkWriter {
    type Error = EioError;
}

impl embedded_io::Write for ChunkWriter {
    fn write(&mut self, buf: &[u8]) -> Result<usize, EioError> {
        loop {
            match self.step(buf) {
                // embedded-io forbids Ok(0) for a non-empty buffer (write_all panics on it by
                // contract), so a "device full" condition is an error here
                Ok(0) if !buf.is_empty() => return Err(EioError(embedded_io::ErrorKind::WriteZero)),
                Ok(n) => return Ok(n),
                Err(true) => continue,
                Err(false) => return Err(EioError(embedded_io::ErrorKind::Other)),
            }
        }
    }
    fn flush(&mut self) -> Result<(), EioError> {
        self.flushes += 1;
        // counts data handed over after the most recent flush
        self.writes_after_flush = 0;
        if self.fail_flush {
            Err(EioError(embedded_io::ErrorKind::Other))
        } else {
            Ok(())
        }
    }
}

/// A by-value handle on a shared ChunkReader, so that the reader's state can be inspected
/// after `from_io` consumed (and, on error, dropped) the handle.
#[derive(Clone)]
pub struct SharedReader<'a>(pub std::rc::Rc<std::cell::RefCell<ChunkReader<'a>>>);

impl<'a> SharedReader<'a> {
    pub fn new(r: ChunkReader<'a>) -> Self {
        SharedReader(std::rc::Rc::new(std::cell::RefCell::new(r)))
    }
    pub fn pos(&self) -> usize {
        self.0.borrow().pos
    }
}

impl io::Read for SharedReader<'_> {
    fn read(&mut self, buf: &mut [u8]) -> io::Result<usize> {
        io::Read::read(&mut *self.0.borrow_mut(), buf)
    }
}
impl embedded_io::ErrorType for SharedReader<'_> {
    type Error = EioError;
}
impl embedded_io::Read for SharedReader<'_> {
    fn read(&mut self, buf: &mut [u8]) -> Result<usize, EioError> {
        embedded_io::Read::read(&mut *self.0.borrow_mut(), buf)
    }
}

/// A reader that reports one transient-looking error (`WouldBlock`, `TimedOut`, ...) when its position reaches
/// `fail_at`, after having delivered everything before it in pieces of at most `chunk` bytes, and works again afterwards.
pub struct TransientReader<'a> {
    pub data: &'a [u8],
    pub pos: usize,
    pub chunk: usize,
    pub fail_at: usize,
    pub kind: io::ErrorKind,
    pub fired: bool,
}

impl<'a> TransientReader<'a> {
    pub fn new(data: &'a [u8], chunk: usize, fail_at: usize, kind: io::ErrorKind) -> Self {
        TransientReader { data, pos: 0, chunk: chunk.max(1), fail_at, kind, fired: false }
    }
    fn step(&mut self, buf: &mut [u8]) -> Result<usize, ()> {
        if buf.is_empty() {
            return Ok(0);
        }
        if self.pos == self.fail_at && !self.fired {
            self.fired = true;
            return Err(());
        }
        let mut n = buf.len().min(self.chunk).min(self.data.len() - self.pos);
        if !self.fired && self.pos < self.fail_at {
            n = n.min(self.fail_at - self.pos);
        }
        buf[..n].copy_from_slice(&self.data[self.pos..self.pos + n]);
        self.pos += n;
        Ok(n)
    }
}

impl io::Read for &mut TransientReader<'_> {
    fn read(&mut self, buf: &mut [u8]) -> io::Result<usize> {
        let kind = self.kind;
        self.step(buf).map_err(|_| io::Error::new(kind, "transient condition"))
    }
}

impl embedded_io::ErrorType for &mut TransientReader<'_> {
    type Error = EioError;
}

impl embedded_io::Read for &mut TransientReader<'_> {
    fn read(&mut self, buf: &mut [u8]) -> Result<usize, EioError> {
        self.step(buf).map_err(|_| EioError(embedded_io::ErrorKind::TimedOut))
    }
}
