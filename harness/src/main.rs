use pcv::props;
use pcv::runner::{self, Ctx, Local, Tier};
use std::path::PathBuf;

fn usage() -> ! {
    eprintln!("usage: pcv run <ID> [--tier quick|thorough] [--seed N] | pcv replay <ID> <file> | pcv selftest");
    std::process::exit(2)
}

fn verif_dir() -> PathBuf {
    if let Some(d) = std::env::var_os("VERIF_DIR") {
        return PathBuf::from(d);
    }
    // harness/target/release/pcv -> ../../..
    let exe = std::env::current_exe().unwrap();
    exe.parent().unwrap().parent().unwrap().parent().unwrap().parent().unwrap().to_path_buf()
}

fn main() {
    let args: Vec<String> = std::env::args().collect();
    if args.len() < 2 {
        usage();
    }
    runner::install_quiet_panic_hook();
    match args[1].as_str() {
        "selftest" => {
            for p in props::all() {
                if let Err(e) = (p.self_test)() {
                    println!("INCONCLUSIVE self-test {}: {}", p.id, e);
                    std::process::exit(2);
                }
            }
            println!("self-tests ok");
        }
        "run" => {
            let id = args.get(2).unwrap_or_else(|| usage()).clone();
            let mut tier = match std::env::var("VERIF_TIER").ok().as_deref() {
                Some("thorough") => Tier::Thorough,
                _ => Tier::Quick,
            };
            let mut seed: u64 = std::env::var("VERIF_SEED").ok().and_then(|s| s.parse().ok()).unwrap_or(1);
            let mut i = 3;
            while i < args.len() {
                match args[i].as_str() {
                    "--tier" => {
                        tier = if args[i + 1] == "thorough" { Tier::Thorough } else { Tier::Quick };
                        i += 2;
                    }
                    "--seed" => {
                        seed = args[i + 1].parse().unwrap_or(1);
                        i += 2;
                    }
                    _ => usage(),
                }
            }
            let all = props::all();
            let Some(p) = all.iter().find(|p| p.id == id) else {
                eprintln!("unknown property {}", id);
                std::process::exit(2)
            };
            if let Err(e) = (p.self_test)() {
                println!("INCONCLUSIVE self-test: {}", e);
                std::process::exit(2);
            }
            let vd = verif_dir();
            runner::install_crash_handler(p.id, &vd);
            let ctx = Ctx::new(p.id, tier, seed, vd.clone());
            // committed regression cases first
            let rdir = vd.join("replays").join(p.id);
            let mut files: Vec<PathBuf> = std::fs::read_dir(&rdir)
                .map(|d| d.filter_map(|e| e.ok()).map(|e| e.path()).filter(|p| p.extension().map_or(false, |x| x == "json")).collect())
                .unwrap_or_default();
            files.sort();
            let mut l = Local::new();
            let mut n_replayed = 0;
            for f in &files {
                match run_replay(p, f, &mut l) {
                    Ok(Ok(())) => n_replayed += 1,
                    Ok(Err(mut fl)) => {
                        n_replayed += 1;
                        fl.msg = format!("[regression case {}] {}", f.display(), fl.msg);
                        if fl.signature.as_deref().map_or(false, |s| ctx.is_known_open(s).is_some()) {
                            ctx.report(&fl);
                        } else {
                            println!("VIOLATION property={} replay={}", p.id, f.display());
                            eprintln!("  {}", fl.msg);
                            ctx.violations.lock().unwrap().push((fl.msg.clone(), f.display().to_string()));
                        }
                    }
                    Err(e) => {
                        println!("INCONCLUSIVE unreadable replay {}: {}", f.display(), e);
                        std::process::exit(2);
                    }
                }
            }
            l.class_n("committed-regression-cases", n_replayed);
            ctx.merge(l);
            if !ctx.has_violation() {
                (p.run)(&ctx);
            }
            ctx.write_evidence().expect("cannot write evidence");
            let inc = ctx.inconclusive.lock().unwrap().clone();
            if ctx.has_violation() {
                std::process::exit(1);
            }
            if !inc.is_empty() {
                println!("INCONCLUSIVE {:?}", inc);
                std::process::exit(2);
            }
            println!("OK property={} tier={} seed={}", p.id, tier.name(), seed);
        }
        "gen-fuzz-seeds" => {
            // pcv gen-fuzz-seeds <dir> : write deterministic seed inputs for every fuzz target
            let dir = PathBuf::from(args.get(2).unwrap_or_else(|| usage()));
            for (t, _) in pcv::fuzzsupport::TARGETS {
                let d = dir.join(t);
                std::fs::create_dir_all(&d).unwrap();
                for (i, inp) in pcv::fuzzsupport::seed_inputs(t, 48).iter().enumerate() {
                    std::fs::write(d.join(format!("seed-{:02}", i)), inp).unwrap();
                }
            }
            println!("seeds written to {}", dir.display());
        }
        "fuzz-replay" => {
            // pcv fuzz-replay <target> <artifact> : run one libFuzzer input through the target's oracles
            let target = args.get(2).unwrap_or_else(|| usage()).clone();
            let file = args.get(3).unwrap_or_else(|| usage());
            let data = std::fs::read(file).expect("cannot read artifact");
            let mut l = Local::new();
            match runner::no_panic(|| pcv::fuzzsupport::run_target(&target, &data, &mut l)) {
                Ok(Ok(())) => println!("fuzz input passes"),
                Ok(Err(f)) => {
                    println!("FUZZ-FAIL {}", f.msg);
                    println!("CASE {}", f.case);
                    if let Some(s) = f.signature {
                        println!("SIGNATURE {}", s);
                    }
                    std::process::exit(1);
                }
                Err(p) => {
                    println!("FUZZ-FAIL panic: {}", p);
                    println!("CASE {}", serde_json::json!({"check": "fuzz", "target": target, "input": runner::hex(&data)}));
                    std::process::exit(1);
                }
            }
        }
        "replay" => {
            let id = args.get(2).unwrap_or_else(|| usage()).clone();
            let file = PathBuf::from(args.get(3).unwrap_or_else(|| usage()));
            let all = props::all();
            let Some(p) = all.iter().find(|p| p.id == id) else { usage() };
            runner::install_crash_handler(p.id, &verif_dir());
            let mut l = Local::new();
            match run_replay(p, &file, &mut l) {
                Ok(Ok(())) => println!("replay passed: {}", file.display()),
                Ok(Err(f)) => {
                    println!("VIOLATION property={} replay={}", id, file.display());
                    println!("  {}", f.msg);
                    if let Some(s) = f.signature {
                        println!("  signature: {}", s);
                    }
                    std::process::exit(1);
                }
                Err(e) => {
                    println!("INCONCLUSIVE unreadable replay: {}", e);
                    std::process::exit(2);
                }
            }
        }
        _ => usage(),
    }
}

fn run_replay(p: &props::Prop, file: &std::path::Path, l: &mut Local) -> Result<runner::CaseResult, String> {
    let s = std::fs::read_to_string(file).map_err(|e| e.to_string())?;
    let j: serde_json::Value = serde_json::from_str(&s).map_err(|e| e.to_string())?;
    if let Some(p_arr) = j.get("pending").and_then(|p| p.as_array()) {
        // crash file: try each pending case
        for c in p_arr {
            match runner::no_panic(|| (p.replay)(c, l)) {
                Ok(Ok(())) => {}
                Ok(Err(f)) => return Ok(Err(f)),
                Err(pm) => return Ok(Err(runner::fail("replay", format!("panic: {}", pm), c.clone()))),
            }
        }
        return Ok(Ok(()));
    }
    let case = j.get("case").cloned().unwrap_or(j);
    match runner::no_panic(|| (p.replay)(&case, l)) {
        Ok(r) => Ok(r),
        Err(pm) => Ok(Err(runner::fail("replay", format!("panic: {}", pm), case))),
    }
}
