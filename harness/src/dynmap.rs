//! Mapping between harness shapes, neutral schema trees and postcard-schema owned schemas,
//! plus the JSON-faithfulness transformations used by C17 / C18.

use crate::dynshape::{intern, Name, Shape, VKind, Value, Variant};
use crate::schematree::{TData, Tree};

/// Shape -> neutral schema tree (what the in-repo derive / built-in Schema impls would declare).
pub fn shape_to_tree(s: &Shape) -> Tree {
    let fields = |fs: &Vec<(Name, Shape)>| TData::Struct(fs.iter().map(|(n, s)| (n.0.to_string(), shape_to_tree(s))).collect());
    match s {
        Shape::Bool => Tree::Bool,
        Shape::I8 => Tree::I8,
        Shape::I16 => Tree::I16,
        Shape::I32 => Tree::I32,
        Shape::I64 => Tree::I64,
        Shape::I128 => Tree::I128,
        Shape::U8 => Tree::U8,
        Shape::U16 => Tree::U16,
        Shape::U32 => Tree::U32,
        Shape::U64 => Tree::U64,
        Shape::U128 => Tree::U128,
        Shape::Usize => Tree::Usize,
        Shape::Isize => Tree::Isize,
        Shape::F32 => Tree::F32,
        Shape::F64 => Tree::F64,
        Shape::Char => Tree::Char,
        Shape::Str | Shape::String | Shape::DisplayStr => Tree::String,
        Shape::Bytes | Shape::ByteBuf => Tree::ByteArray,
        Shape::Option(i) => Tree::Option(Box::new(shape_to_tree(i))),
        Shape::Unit => Tree::Unit,
        Shape::UnitStruct(n) => Tree::Struct(n.0.to_string(), TData::Unit),
        Shape::Newtype(n, i) => Tree::Struct(n.0.to_string(), TData::Newtype(Box::new(shape_to_tree(i)))),
        Shape::Seq(i) | Shape::UnsizedSeq(i) => Tree::Seq(Box::new(shape_to_tree(i))),
        Shape::Tuple(ts) => Tree::Tuple(ts.iter().map(shape_to_tree).collect()),
        Shape::TupleStruct(n, ts) => Tree::Struct(n.0.to_string(), TData::Tuple(ts.iter().map(shape_to_tree).collect())),
        Shape::Map(k, v) | Shape::UnsizedMap(k, v) => Tree::Map(Box::new(shape_to_tree(k)), Box::new(shape_to_tree(v))),
        Shape::Struct(n, fs) => Tree::Struct(n.0.to_string(), fields(fs)),
        Shape::Enum(n, vs) => Tree::Enum(
            n.0.to_string(),
            vs.iter()
                .map(|v| {
                    (
                        v.name.0.to_string(),
                        match &v.kind {
                            VKind::Unit => TData::Unit,
                            VKind::Newtype(i) => TData::Newtype(Box::new(shape_to_tree(i))),
                            VKind::Tuple(ts) => TData::Tuple(ts.iter().map(shape_to_tree).collect()),
                            VKind::Struct(fs) => fields(fs),
                        },
                    )
                })
                .collect(),
        ),
    }
}

/// Neutral tree -> shape that decodes/encodes the same wire format (`Schema` leaves have no serde
/// counterpart and map to `None`).
pub fn tree_to_shape(t: &Tree) -> Option<Shape> {
    let list = |ts: &Vec<Tree>| ts.iter().map(tree_to_shape).collect::<Option<Vec<Shape>>>();
    let fields = |fs: &Vec<(String, Tree)>| fs.iter().map(|(n, t)| tree_to_shape(t).map(|s| (intern(n), s))).collect::<Option<Vec<_>>>();
    Some(match t {
        Tree::Bool => Shape::Bool,
        Tree::I8 => Shape::I8,
        Tree::U8 => Shape::U8,
        Tree::I16 => Shape::I16,
        Tree::I32 => Shape::I32,
        Tree::I64 => Shape::I64,
        Tree::I128 => Shape::I128,
        Tree::U16 => Shape::U16,
        Tree::U32 => Shape::U32,
        Tree::U64 => Shape::U64,
        Tree::U128 => Shape::U128,
        Tree::Usize => Shape::Usize,
        Tree::Isize => Shape::Isize,
        Tree::F32 => Shape::F32,
        Tree::F64 => Shape::F64,
        Tree::Char => Shape::Char,
        Tree::String => Shape::String,
        Tree::ByteArray => Shape::ByteBuf,
        Tree::Option(i) => Shape::Option(Box::new(tree_to_shape(i)?)),
        Tree::Unit => Shape::Unit,
        Tree::Seq(i) => Shape::Seq(Box::new(tree_to_shape(i)?)),
        Tree::Tuple(ts) => Shape::Tuple(list(ts)?),
        Tree::Map(k, v) => Shape::Map(Box::new(tree_to_shape(k)?), Box::new(tree_to_shape(v)?)),
        Tree::Struct(n, d) => match d {
            TData::Unit => Shape::UnitStruct(intern(n)),
            TData::Newtype(i) => Shape::Newtype(intern(n), Box::new(tree_to_shape(i)?)),
            TData::Tuple(ts) => Shape::TupleStruct(intern(n), list(ts)?),
            TData::Struct(fs) => Shape::Struct(intern(n), fields(fs)?),
        },
        // an enum without variants has no values to generate
        Tree::Enum(_, vs) if vs.is_empty() => return None,
        Tree::Enum(n, vs) => Shape::Enum(
            intern(n),
            vs.iter()
                .enumerate()
                .map(|(i, (vn, d))| {
                    Some(Variant {
                        index: i as u32,
                        name: intern(vn),
                        kind: match d {
                            TData::Unit => VKind::Unit,
                            TData::Newtype(i) => VKind::Newtype(Box::new(tree_to_shape(i)?)),
                            TData::Tuple(ts) => VKind::Tuple(list(ts)?),
                            TData::Struct(fs) => VKind::Struct(fields(fs)?),
                        },
                    })
                })
                .collect::<Option<Vec<_>>>()?,
        ),
        Tree::Schema => return None,
    })
}

/// zero bytes on the wire for every value
pub fn tree_zero_width(t: &Tree) -> bool {
    match t {
        Tree::Unit => true,
        Tree::Tuple(ts) => ts.iter().all(tree_zero_width),
        Tree::Struct(_, d) => match d {
            TData::Unit => true,
            TData::Newtype(i) => tree_zero_width(i),
            TData::Tuple(ts) => ts.iter().all(tree_zero_width),
            TData::Struct(fs) => fs.iter().all(|(_, t)| tree_zero_width(t)),
        },
        _ => false,
    }
}

/// Does the serde_json form of some value of this shape equal `null`?
pub fn json_nullable(s: &Shape) -> bool {
    match s {
        Shape::Unit | Shape::UnitStruct(_) | Shape::Option(_) => true,
        Shape::Newtype(_, i) => json_nullable(i),
        // non-finite floats are excluded from the quantifier, so floats are never null here
        _ => false,
    }
}

#[derive(Default, Debug, Clone, Copy)]
pub struct Excl {
    /// plain 1-tuples rewritten to 2-tuples (known finding, excluded by construction)
    pub one_tuples: u64,
    /// zero-arity tuples / tuple structs / tuple variants rewritten
    pub zero_tuples: u64,
}

fn uniq<T>(items: Vec<(Name, T)>) -> Vec<(Name, T)> {
    let mut seen: Vec<&'static str> = vec![];
    items
        .into_iter()
        .enumerate()
        .map(|(i, (n, t))| {
            if seen.contains(&n.0) {
                let nn = intern(&format!("{}_{}", n.0, i));
                seen.push(nn.0);
                (nn, t)
            } else {
                seen.push(n.0);
                (n, t)
            }
        })
        .collect()
}

/// Restrict a generated shape to "types whose JSON form is unambiguous" (C17's quantifier):
/// string-keyed maps, no nullable payload under Option, unique field / variant names, one-field
/// unnamed structs and variants modelled as newtypes, dense enum indices. `keep_one_tuples`
/// leaves plain 1-tuples in place (strict replay of the known finding).
pub fn jsonify_shape(s: &Shape, keep_one_tuples: bool, ex: &mut Excl) -> Shape {
    let j = |s: &Shape, ex: &mut Excl| jsonify_shape(s, keep_one_tuples, ex);
    let jl = |ts: &Vec<Shape>, ex: &mut Excl| ts.iter().map(|t| jsonify_shape(t, keep_one_tuples, ex)).collect::<Vec<_>>();
    let jf = |fs: &Vec<(Name, Shape)>, ex: &mut Excl| uniq(fs.iter().map(|(n, t)| (*n, jsonify_shape(t, keep_one_tuples, ex))).collect());
    match s {
        Shape::Str => Shape::String,
        Shape::Bytes => Shape::ByteBuf,
        Shape::Option(i) => {
            let inner = j(i, ex);
            if json_nullable(&inner) {
                Shape::Option(Box::new(Shape::Tuple(vec![inner, Shape::Bool])))
            } else {
                Shape::Option(Box::new(inner))
            }
        }
        Shape::Newtype(n, i) => Shape::Newtype(*n, Box::new(j(i, ex))),
        Shape::Seq(i) => Shape::Seq(Box::new(j(i, ex))),
        Shape::Tuple(ts) => {
            let mut v = jl(ts, ex);
            if v.len() == 1 && !keep_one_tuples {
                ex.one_tuples += 1;
                v.push(Shape::Bool);
            }
            Shape::Tuple(v)
        }
        Shape::TupleStruct(n, ts) => {
            let v = jl(ts, ex);
            if v.len() == 1 {
                Shape::Newtype(*n, Box::new(v.into_iter().next().unwrap()))
            } else {
                Shape::TupleStruct(*n, v)
            }
        }
        Shape::Map(_, v) => Shape::Map(Box::new(Shape::String), Box::new(j(v, ex))),
        Shape::Struct(n, fs) => Shape::Struct(*n, jf(fs, ex)),
        Shape::Enum(n, vs) => {
            let named: Vec<(Name, VKind)> = vs
                .iter()
                .map(|v| {
                    (
                        v.name,
                        match &v.kind {
                            VKind::Unit => VKind::Unit,
                            VKind::Newtype(i) => VKind::Newtype(Box::new(j(i, ex))),
                            VKind::Tuple(ts) => {
                                let v = jl(ts, ex);
                                if v.len() == 1 {
                                    VKind::Newtype(Box::new(v.into_iter().next().unwrap()))
                                } else {
                                    VKind::Tuple(v)
                                }
                            }
                            VKind::Struct(fs) => VKind::Struct(jf(fs, ex)),
                        },
                    )
                })
                .collect();
            Shape::Enum(
                *n,
                uniq(named).into_iter().enumerate().map(|(i, (name, kind))| Variant { index: i as u32, name, kind }).collect(),
            )
        }
        other => other.clone(),
    }
}

/// Adapt a value generated for `orig` to the jsonified shape `js` (same tree structure except for
/// the documented rewrites) and to the quantifier: 128-bit ints within i64/u64, finite floats,
/// unique ascending map keys.
pub fn jsonify_value(orig: &Shape, js: &Shape, v: &Value) -> Value {
    match (orig, js, v) {
        (Shape::I128, _, Value::I(x)) => Value::I(*x as i64 as i128),
        (Shape::U128, _, Value::U(x)) => Value::U(*x as u64 as u128),
        (Shape::F32, _, Value::F32(b)) => {
            if f32::from_bits(*b).is_finite() {
                v.clone()
            } else {
                Value::F32((b & 0x807F_FFFF) | 0x3F00_0000)
            }
        }
        (Shape::F64, _, Value::F64(b)) => {
            if f64::from_bits(*b).is_finite() {
                v.clone()
            } else {
                Value::F64((b & 0x800F_FFFF_FFFF_FFFF) | 0x3FE0_0000_0000_0000)
            }
        }
        (Shape::Option(_), _, Value::None) => Value::None,
        (Shape::Option(oi), Shape::Option(ji), Value::Some(x)) => {
            let oj = {
                let mut ex = Excl::default();
                jsonify_shape(oi, true, &mut ex)
            };
            // was the payload wrapped in (inner, bool)?
            match &**ji {
                Shape::Tuple(w) if w.len() == 2 && w[1] == Shape::Bool && json_nullable(&w[0]) && json_nullable(&oj) => {
                    Value::Some(Box::new(Value::List(vec![jsonify_value(oi, &w[0], x), Value::Bool(true)])))
                }
                _ => Value::Some(Box::new(jsonify_value(oi, ji, x))),
            }
        }
        (Shape::Newtype(_, oi), Shape::Newtype(_, ji), Value::Newtype(x)) => Value::Newtype(Box::new(jsonify_value(oi, ji, x))),
        (Shape::Seq(oi), Shape::Seq(ji), Value::List(xs)) => Value::List(xs.iter().map(|x| jsonify_value(oi, ji, x)).collect()),
        (Shape::Tuple(os), Shape::Tuple(jsv), Value::List(xs)) => {
            let mut out: Vec<Value> = os.iter().zip(jsv).zip(xs).map(|((o, j), x)| jsonify_value(o, j, x)).collect();
            if jsv.len() == os.len() + 1 {
                out.push(Value::Bool(false));
            }
            Value::List(out)
        }
        (Shape::TupleStruct(_, os), Shape::TupleStruct(_, jsv), Value::List(xs)) => {
            Value::List(os.iter().zip(jsv).zip(xs).map(|((o, j), x)| jsonify_value(o, j, x)).collect())
        }
        (Shape::TupleStruct(_, os), Shape::Newtype(_, ji), Value::List(xs)) => Value::Newtype(Box::new(jsonify_value(&os[0], ji, &xs[0]))),
        (Shape::Map(_, ov), Shape::Map(_, jv), Value::Map(pairs)) => {
            // keys become strings "k<i>", unique and ascending by construction
            let out: Vec<(Value, Value)> = pairs
                .iter()
                .enumerate()
                .map(|(i, (_, x))| (Value::Str(json_key(i)), jsonify_value(ov, jv, x)))
                .collect();
            Value::Map(out)
        }
        (Shape::Struct(_, of), Shape::Struct(_, jf), Value::List(xs)) => {
            Value::List(of.iter().zip(jf).zip(xs).map(|(((_, o), (_, j)), x)| jsonify_value(o, j, x)).collect())
        }
        (Shape::Enum(_, ovs), Shape::Enum(_, jvs), Value::Variant(pos, payload)) => {
            let (ov, jv) = (&ovs[*pos], &jvs[*pos]);
            let p = match (&ov.kind, &jv.kind, &**payload) {
                (VKind::Unit, _, _) => Value::Unit,
                (VKind::Newtype(o), VKind::Newtype(j), x) => jsonify_value(o, j, x),
                (VKind::Tuple(os), VKind::Tuple(jsv), Value::List(xs)) => {
                    Value::List(os.iter().zip(jsv).zip(xs).map(|((o, j), x)| jsonify_value(o, j, x)).collect())
                }
                (VKind::Tuple(os), VKind::Newtype(j), Value::List(xs)) => jsonify_value(&os[0], j, &xs[0]),
                (VKind::Struct(of), VKind::Struct(jf), Value::List(xs)) => {
                    Value::List(of.iter().zip(jf).zip(xs).map(|(((_, o), (_, j)), x)| jsonify_value(o, j, x)).collect())
                }
                _ => panic!("harness bug: jsonify_value variant mismatch"),
            };
            Value::Variant(*pos, Box::new(p))
        }
        _ => v.clone(),
    }
}

/// i-th key of a JSON-faithful map: unique and ascending; starts with the empty string and
/// one-byte keys, then longer ones
pub fn json_key(i: usize) -> String {
    match i {
        0 => String::new(),
        1..=9 => ((b'a' + i as u8 - 1) as char).to_string(),
        _ => format!("k{:04}", i),
    }
}

pub fn contains_one_tuple(s: &Shape) -> bool {
    let mut found = false;
    fn walk(s: &Shape, found: &mut bool) {
        match s {
            Shape::Tuple(ts) => {
                if ts.len() == 1 {
                    *found = true;
                }
                ts.iter().for_each(|t| walk(t, found));
            }
            Shape::Option(i) | Shape::Newtype(_, i) | Shape::Seq(i) => walk(i, found),
            Shape::TupleStruct(_, ts) => ts.iter().for_each(|t| walk(t, found)),
            Shape::Map(k, v) => {
                walk(k, found);
                walk(v, found)
            }
            Shape::Struct(_, fs) => fs.iter().for_each(|(_, t)| walk(t, found)),
            Shape::Enum(_, vs) => vs.iter().for_each(|v| match &v.kind {
                VKind::Unit => {}
                VKind::Newtype(i) => walk(i, found),
                VKind::Tuple(ts) => ts.iter().for_each(|t| walk(t, found)),
                VKind::Struct(fs) => fs.iter().for_each(|(_, t)| walk(t, found)),
            }),
            _ => {}
        }
    }
    walk(s, &mut found);
    found
}

/// A value that descends through every container of the shape: last variant of every enum, `Some`, one element per
/// sequence / map; scalars are small and derived from `k`.
pub fn full_value(s: &Shape, k: u8) -> Value {
    let f = |s: &Shape| full_value(s, k.wrapping_add(1));
    let fields = |fs: &[(crate::dynshape::Name, Shape)]| Value::List(fs.iter().map(|(_, s)| f(s)).collect());
    match s {
        Shape::Bool => Value::Bool(k % 2 == 0),
        Shape::I8 | Shape::I16 | Shape::I32 | Shape::I64 | Shape::I128 | Shape::Isize => Value::I(-(k as i128 % 100)),
        Shape::U8 | Shape::U16 | Shape::U32 | Shape::U64 | Shape::U128 | Shape::Usize => Value::U(k as u128 % 200),
        Shape::F32 => Value::F32((k as f32).to_bits()),
        Shape::F64 => Value::F64((k as f64).to_bits()),
        Shape::Char => Value::Char((b'a' + k % 26) as char),
        Shape::Str | Shape::String => Value::Str(format!("s{}", k)),
        Shape::Bytes | Shape::ByteBuf => Value::Bytes(vec![k; (k % 3) as usize]),
        Shape::Option(i) => Value::Some(Box::new(f(i))),
        Shape::Unit | Shape::UnitStruct(_) => Value::Unit,
        Shape::Newtype(_, i) => Value::Newtype(Box::new(f(i))),
        Shape::Seq(i) | Shape::UnsizedSeq(i) => Value::List(vec![f(i)]),
        Shape::Tuple(ts) | Shape::TupleStruct(_, ts) => Value::List(ts.iter().map(|s| f(s)).collect()),
        Shape::Map(kk, v) | Shape::UnsizedMap(kk, v) => Value::Map(vec![(f(kk), f(v))]),
        Shape::Struct(_, fs) => fields(fs),
        Shape::Enum(_, vs) => {
            let i = vs.len() - 1;
            let payload = match &vs[i].kind {
                VKind::Unit => Value::Unit,
                VKind::Newtype(s) => f(s),
                VKind::Tuple(ts) => Value::List(ts.iter().map(|s| f(s)).collect()),
                VKind::Struct(fs) => fields(fs),
            };
            Value::Variant(i, Box::new(payload))
        }
        Shape::DisplayStr => Value::Pieces(vec![format!("p{}", k)]),
    }
}
