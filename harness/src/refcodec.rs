//! Reference wire encoder and decoder written from spec/src/wire-format.md.
//! Shares no code or formula with /repo. DESIGN.md §3.2.

use crate::dynshape::{Shape, VKind, Value, ZERO_WIDTH_LOOP_LIMIT};

#[derive(Clone, Debug, Default)]
pub struct Encoded {
    pub bytes: Vec<u8>,
    /// (offset, len) of every str / bytes payload, in order
    pub payload_spans: Vec<(usize, usize)>,
    /// (offset, len, bits) of every varint
    pub varint_spans: Vec<(usize, usize, u32)>,
    pub has_float: bool,
    pub has_header: bool,
}

#[derive(Clone, Copy, Debug, PartialEq, Eq)]
pub enum EncErr {
    UnknownLength,
}

/// varint by repeated divmod 128 on u128
fn put_varint(out: &mut Encoded, mut v: u128, bits: u32) {
    let start = out.bytes.len();
    loop {
        let group = (v % 128) as u8;
        v /= 128;
        if v == 0 {
            out.bytes.push(group);
            break;
        } else {
            out.bytes.push(group + 128);
        }
    }
    out.varint_spans.push((start, out.bytes.len() - start, bits));
}

/// zig-zag, arithmetic definition: n >= 0 -> 2n ; n < 0 -> -2n - 1
fn zigzag(v: i128) -> u128 {
    if v >= 0 {
        (v as u128) * 2
    } else {
        // -2v - 1 = 2 * (-(v + 1)) + 1, and -(v+1) is in 0..=i128::MAX
        ((-(v + 1)) as u128) * 2 + 1
    }
}

fn unzigzag(n: u128) -> i128 {
    if n % 2 == 0 {
        (n / 2) as i128
    } else {
        // n = -2v - 1  =>  v = -(n + 1) / 2 = -(n / 2) - 1
        -((n / 2) as i128) - 1
    }
}

fn put_signed(out: &mut Encoded, v: i128, bits: u32) {
    put_varint(out, zigzag(v), bits)
}

fn put_len(out: &mut Encoded, n: usize) {
    out.has_header = true;
    put_varint(out, n as u128, 64)
}

fn put_payload(out: &mut Encoded, b: &[u8]) {
    put_len(out, b.len());
    out.payload_spans.push((out.bytes.len(), b.len()));
    out.bytes.extend_from_slice(b);
}

fn enc(out: &mut Encoded, shape: &Shape, value: &Value) -> Result<(), EncErr> {
    match (shape, value) {
        (Shape::Bool, Value::Bool(b)) => out.bytes.push(if *b { 1 } else { 0 }),
        (Shape::I8, Value::I(v)) => out.bytes.push((*v as i8).to_le_bytes()[0]),
        (Shape::U8, Value::U(v)) => out.bytes.push(*v as u8),
        (Shape::I16, Value::I(v)) => put_signed(out, *v, 16),
        (Shape::I32, Value::I(v)) => put_signed(out, *v, 32),
        (Shape::I64 | Shape::Isize, Value::I(v)) => put_signed(out, *v, 64),
        (Shape::I128, Value::I(v)) => put_signed(out, *v, 128),
        (Shape::U16, Value::U(v)) => put_varint(out, *v, 16),
        (Shape::U32, Value::U(v)) => put_varint(out, *v, 32),
        (Shape::U64 | Shape::Usize, Value::U(v)) => put_varint(out, *v, 64),
        (Shape::U128, Value::U(v)) => put_varint(out, *v, 128),
        (Shape::F32, Value::F32(bits)) => {
            out.has_float = true;
            for i in 0..4 {
                out.bytes.push(((bits >> (8 * i)) & 0xFF) as u8);
            }
        }
        (Shape::F64, Value::F64(bits)) => {
            out.has_float = true;
            for i in 0..8 {
                out.bytes.push(((bits >> (8 * i)) & 0xFF) as u8);
            }
        }
        (Shape::Char, Value::Char(c)) => {
            let mut buf = [0u8; 4];
            let s = c.encode_utf8(&mut buf);
            put_len(out, s.len());
            out.bytes.extend_from_slice(s.as_bytes());
        }
        (Shape::Str | Shape::String, Value::Str(s)) => put_payload(out, s.as_bytes()),
        (Shape::Bytes | Shape::ByteBuf, Value::Bytes(b)) => put_payload(out, b),
        (Shape::DisplayStr, Value::Pieces(p)) => {
            let text: String = p.concat();
            put_payload(out, text.as_bytes())
        }
        (Shape::Option(_), Value::None) => {
            out.has_header = true;
            out.bytes.push(0)
        }
        (Shape::Option(inner), Value::Some(v)) => {
            out.has_header = true;
            out.bytes.push(1);
            enc(out, inner, v)?
        }
        (Shape::Unit | Shape::UnitStruct(_), Value::Unit) => {}
        (Shape::Newtype(_, inner), Value::Newtype(v)) => enc(out, inner, v)?,
        (Shape::Seq(elem), Value::List(vs)) => {
            put_len(out, vs.len());
            for v in vs {
                enc(out, elem, v)?;
            }
        }
        (Shape::UnsizedSeq(_), Value::List(_)) | (Shape::UnsizedMap(..), Value::Map(_)) => {
            return Err(EncErr::UnknownLength)
        }
        (Shape::Tuple(shapes) | Shape::TupleStruct(_, shapes), Value::List(vs)) => {
            assert_eq!(shapes.len(), vs.len());
            for (s, v) in shapes.iter().zip(vs) {
                enc(out, s, v)?;
            }
        }
        (Shape::Map(k, v), Value::Map(pairs)) => {
            put_len(out, pairs.len());
            for (kv, vv) in pairs {
                enc(out, k, kv)?;
                enc(out, v, vv)?;
            }
        }
        (Shape::Struct(_, fields), Value::List(vs)) => {
            assert_eq!(fields.len(), vs.len());
            for ((_, s), v) in fields.iter().zip(vs) {
                enc(out, s, v)?;
            }
        }
        (Shape::Enum(_, variants), Value::Variant(pos, payload)) => {
            let var = &variants[*pos];
            out.has_header = true;
            put_varint(out, var.index as u128, 32);
            match (&var.kind, &**payload) {
                (VKind::Unit, Value::Unit) => {}
                (VKind::Newtype(inner), v) => enc(out, inner, v)?,
                (VKind::Tuple(shapes), Value::List(vs)) => {
                    assert_eq!(shapes.len(), vs.len());
                    for (s, v) in shapes.iter().zip(vs) {
                        enc(out, s, v)?;
                    }
                }
                (VKind::Struct(fields), Value::List(vs)) => {
                    assert_eq!(fields.len(), vs.len());
                    for ((_, s), v) in fields.iter().zip(vs) {
                        enc(out, s, v)?;
                    }
                }
                _ => panic!("harness bug: bad variant payload"),
            }
        }
        _ => panic!("harness bug: value {:?} does not inhabit {:?}", value, shape),
    }
    Ok(())
}

pub fn ref_encode(shape: &Shape, value: &Value) -> Result<Encoded, EncErr> {
    let mut out = Encoded::default();
    enc(&mut out, shape, value)?;
    Ok(out)
}

/// Every varint the encoder produced must be canonical: last byte non-zero unless the
/// whole value is zero, and no byte follows a byte < 0x80.
pub fn varints_canonical(e: &Encoded) -> bool {
    e.varint_spans.iter().all(|&(off, len, bits)| {
        let b = &e.bytes[off..off + len];
        let max = ((bits + 6) / 7) as usize;
        len >= 1
            && len <= max
            && b[..len - 1].iter().all(|x| *x >= 0x80)
            && b[len - 1] < 0x80
            && (len == 1 || b[len - 1] != 0)
    })
}

// ---------------------------------------------------------------------------------------

#[derive(Clone, Copy, Debug, PartialEq, Eq, Hash)]
pub enum DecErr {
    UnexpectedEnd,
    BadVarint,
    BadBool,
    BadOption,
    BadUtf8,
    BadChar,
    /// the property does not name the error for this; any Err is accepted
    UnknownVariant,
    /// harness self-protection (zero-width elements with a huge claimed count); not a verdict
    ZeroWidthSkip,
}

#[derive(Clone, Debug)]
pub struct Decoded {
    pub value: Value,
    pub consumed: usize,
    /// (offset, len) of every str / bytes payload in input order
    pub payload_spans: Vec<(usize, usize)>,
    /// true if some varint was accepted in a non-minimal form
    pub noncanonical: bool,
}

struct Rd<'a> {
    buf: &'a [u8],
    pos: usize,
    spans: Vec<(usize, usize)>,
    noncanon: bool,
    zw_budget: u64,
}

impl<'a> Rd<'a> {
    fn byte(&mut self) -> Result<u8, DecErr> {
        match self.buf.get(self.pos) {
            Some(b) => {
                self.pos += 1;
                Ok(*b)
            }
            None => Err(DecErr::UnexpectedEnd),
        }
    }

    fn take(&mut self, n: usize) -> Result<&'a [u8], DecErr> {
        let left = self.buf.len() - self.pos;
        if n > left {
            return Err(DecErr::UnexpectedEnd);
        }
        let s = &self.buf[self.pos..self.pos + n];
        self.pos += n;
        Ok(s)
    }

    /// varint(N) for an N-bit type: at most ceil(bits/7) bytes, value must fit in N bits.
    fn varint(&mut self, bits: u32) -> Result<u128, DecErr> {
        let max_len = (bits as usize + 6) / 7;
        let mut lo: u128 = 0;
        let mut too_big = false;
        for i in 0..max_len {
            let b = self.byte()?;
            let payload = (b & 0x7F) as u128;
            let shift = 7 * i as u32;
            if shift >= 128 {
                if payload != 0 {
                    too_big = true;
                }
            } else {
                if shift + 7 > 128 && (payload >> (128 - shift)) != 0 {
                    too_big = true;
                }
                lo |= payload << shift;
            }
            if b & 0x80 == 0 {
                if bits < 128 && (lo >> bits) != 0 {
                    too_big = true;
                }
                if too_big {
                    return Err(DecErr::BadVarint);
                }
                if i > 0 && b == 0 {
                    self.noncanon = true;
                }
                return Ok(lo);
            }
        }
        // max_len bytes, all with the continuation flag: exceeds the maximum encoded length
        Err(DecErr::BadVarint)
    }

    fn len(&mut self) -> Result<usize, DecErr> {
        Ok(self.varint(64)? as usize)
    }

    fn payload(&mut self) -> Result<&'a [u8], DecErr> {
        let n = self.len()?;
        let off = self.pos;
        let s = self.take(n)?;
        self.spans.push((off, n));
        Ok(s)
    }

    fn fields<'s>(&mut self, shapes: impl Iterator<Item = &'s Shape>) -> Result<Value, DecErr> {
        let mut out = Vec::new();
        for s in shapes {
            out.push(self.dec(s)?);
        }
        Ok(Value::List(out))
    }

    fn dec(&mut self, shape: &Shape) -> Result<Value, DecErr> {
        Ok(match shape {
            Shape::Bool => match self.byte()? {
                0 => Value::Bool(false),
                1 => Value::Bool(true),
                _ => return Err(DecErr::BadBool),
            },
            Shape::I8 => Value::I(i8::from_le_bytes([self.byte()?]) as i128),
            Shape::U8 => Value::U(self.byte()? as u128),
            Shape::I16 => Value::I(unzigzag(self.varint(16)?)),
            Shape::I32 => Value::I(unzigzag(self.varint(32)?)),
            Shape::I64 | Shape::Isize => Value::I(unzigzag(self.varint(64)?)),
            Shape::I128 => Value::I(unzigzag(self.varint(128)?)),
            Shape::U16 => Value::U(self.varint(16)?),
            Shape::U32 => Value::U(self.varint(32)?),
            Shape::U64 | Shape::Usize => Value::U(self.varint(64)?),
            Shape::U128 => Value::U(self.varint(128)?),
            Shape::F32 => {
                let b = self.take(4)?;
                let mut bits = 0u32;
                for i in 0..4 {
                    bits |= (b[i] as u32) << (8 * i);
                }
                Value::F32(bits)
            }
            Shape::F64 => {
                let b = self.take(8)?;
                let mut bits = 0u64;
                for i in 0..8 {
                    bits |= (b[i] as u64) << (8 * i);
                }
                Value::F64(bits)
            }
            Shape::Char => {
                let n = self.len()?;
                if n > 4 {
                    return Err(DecErr::BadChar);
                }
                let b = self.take(n)?;
                let s = std::str::from_utf8(b).map_err(|_| DecErr::BadChar)?;
                let mut it = s.chars();
                match (it.next(), it.next()) {
                    (Some(c), None) => Value::Char(c),
                    _ => return Err(DecErr::BadChar),
                }
            }
            Shape::Str | Shape::String => {
                let b = self.payload()?;
                let s = std::str::from_utf8(b).map_err(|_| DecErr::BadUtf8)?;
                Value::Str(s.to_string())
            }
            Shape::Bytes | Shape::ByteBuf => Value::Bytes(self.payload()?.to_vec()),
            Shape::Option(inner) => match self.byte()? {
                0 => Value::None,
                1 => Value::Some(Box::new(self.dec(inner)?)),
                _ => return Err(DecErr::BadOption),
            },
            Shape::Unit | Shape::UnitStruct(_) => Value::Unit,
            Shape::Newtype(_, inner) => Value::Newtype(Box::new(self.dec(inner)?)),
            Shape::Seq(elem) => {
                let n = self.len()?;
                let zw = elem.zero_width();
                let mut out = Vec::new();
                for _ in 0..n {
                    let v = self.dec(elem)?;
                    if zw {
                        self.zw_budget += 1;
                        if self.zw_budget > ZERO_WIDTH_LOOP_LIMIT {
                            return Err(DecErr::ZeroWidthSkip);
                        }
                    }
                    out.push(v);
                }
                Value::List(out)
            }
            Shape::Tuple(shapes) | Shape::TupleStruct(_, shapes) => self.fields(shapes.iter())?,
            Shape::Struct(_, fields) => self.fields(fields.iter().map(|(_, s)| s))?,
            Shape::Map(k, v) => {
                let n = self.len()?;
                let zw = k.zero_width() && v.zero_width();
                let mut out = Vec::new();
                for _ in 0..n {
                    let kv = self.dec(k)?;
                    if zw {
                        self.zw_budget += 1;
                        if self.zw_budget > ZERO_WIDTH_LOOP_LIMIT {
                            return Err(DecErr::ZeroWidthSkip);
                        }
                    }
                    let vv = self.dec(v)?;
                    out.push((kv, vv));
                }
                Value::Map(out)
            }
            Shape::Enum(_, variants) => {
                let idx = self.varint(32)?;
                let pos = variants
                    .iter()
                    .position(|v| v.index as u128 == idx)
                    .ok_or(DecErr::UnknownVariant)?;
                let payload = match &variants[pos].kind {
                    VKind::Unit => Value::Unit,
                    VKind::Newtype(inner) => self.dec(inner)?,
                    VKind::Tuple(shapes) => self.fields(shapes.iter())?,
                    VKind::Struct(fields) => self.fields(fields.iter().map(|(_, s)| s))?,
                };
                Value::Variant(pos, Box::new(payload))
            }
            Shape::DisplayStr | Shape::UnsizedSeq(_) | Shape::UnsizedMap(..) => {
                panic!("harness bug: encoder-only shape decoded")
            }
        })
    }
}

pub fn ref_decode(shape: &Shape, input: &[u8]) -> Result<Decoded, DecErr> {
    let mut rd = Rd {
        buf: input,
        pos: 0,
        spans: Vec::new(),
        noncanon: false,
        zw_budget: 0,
    };
    let value = rd.dec(shape)?;
    Ok(Decoded {
        value,
        consumed: rd.pos,
        payload_spans: rd.spans,
        noncanonical: rd.noncanon,
    })
}

/// Map a postcard error to the reference error vocabulary (None = some other error).
pub fn classify(e: &postcard::Error) -> Option<DecErr> {
    use postcard::Error::*;
    Some(match e {
        DeserializeUnexpectedEnd => DecErr::UnexpectedEnd,
        DeserializeBadVarint => DecErr::BadVarint,
        DeserializeBadBool => DecErr::BadBool,
        DeserializeBadOption => DecErr::BadOption,
        DeserializeBadUtf8 => DecErr::BadUtf8,
        DeserializeBadChar => DecErr::BadChar,
        _ => return None,
    })
}

/// Self-test on the worked tables of the specification. Err(msg) means the reference itself
/// is broken (exit 2, never a violation).
pub fn self_test() -> Result<(), String> {
    let u16_tab: &[(u16, &[u8])] = &[
        (0, &[0x00]),
        (127, &[0x7F]),
        (128, &[0x80, 0x01]),
        (16383, &[0xFF, 0x7F]),
        (16384, &[0x80, 0x80, 0x01]),
        (16385, &[0x81, 0x80, 0x01]),
        (65535, &[0xFF, 0xFF, 0x03]),
    ];
    for (v, b) in u16_tab {
        let e = ref_encode(&Shape::U16, &Value::U(*v as u128)).unwrap();
        if e.bytes != *b {
            return Err(format!("u16 {} -> {:?}", v, e.bytes));
        }
        let d = ref_decode(&Shape::U16, b).map_err(|e| format!("{:?}", e))?;
        if d.value != Value::U(*v as u128) || d.consumed != b.len() {
            return Err(format!("u16 decode {:?}", b));
        }
    }
    let i16_tab: &[(i16, &[u8])] = &[
        (0, &[0x00]),
        (-1, &[0x01]),
        (1, &[0x02]),
        (63, &[0x7E]),
        (-64, &[0x7F]),
        (64, &[0x80, 0x01]),
        (-65, &[0x81, 0x01]),
        (32767, &[0xFE, 0xFF, 0x03]),
        (-32768, &[0xFF, 0xFF, 0x03]),
    ];
    for (v, b) in i16_tab {
        let e = ref_encode(&Shape::I16, &Value::I(*v as i128)).unwrap();
        if e.bytes != *b {
            return Err(format!("i16 {} -> {:?}", v, e.bytes));
        }
        let d = ref_decode(&Shape::I16, b).map_err(|e| format!("{:?}", e))?;
        if d.value != Value::I(*v as i128) {
            return Err(format!("i16 decode {:?}", b));
        }
    }
    let canon: &[(&[u8], Result<u16, DecErr>)] = &[
        (&[0x00], Ok(0)),
        (&[0x80, 0x00], Ok(0)),
        (&[0x80, 0x80, 0x00], Ok(0)),
        (&[0x80, 0x80, 0x80, 0x00], Err(DecErr::BadVarint)),
        (&[0xFF, 0xFF, 0x03], Ok(65535)),
        (&[0xFF, 0xFF, 0x07], Err(DecErr::BadVarint)),
        (&[0xFF, 0xFF, 0x83, 0x00], Err(DecErr::BadVarint)),
    ];
    for (b, want) in canon {
        let got = ref_decode(&Shape::U16, b).map(|d| match d.value {
            Value::U(v) => v as u16,
            _ => unreachable!(),
        });
        if got != *want {
            return Err(format!("canon table {:?}: {:?}", b, got));
        }
    }
    let f = ref_encode(&Shape::F32, &Value::F32((-32.005859375f32).to_bits())).unwrap();
    if f.bytes != [0x00, 0x06, 0x00, 0xc2] {
        return Err("f32 example".into());
    }
    let f = ref_encode(&Shape::F64, &Value::F64((-32.005859375f64).to_bits())).unwrap();
    if f.bytes != [0x00, 0x00, 0x00, 0x00, 0xc0, 0x00, 0x40, 0xc0] {
        return Err("f64 example".into());
    }
    // 128-bit extremes
    for v in [i128::MIN, i128::MAX, -1, 0, 1] {
        if unzigzag(zigzag(v)) != v {
            return Err("zigzag128".into());
        }
    }
    let e = ref_encode(&Shape::U128, &Value::U(u128::MAX)).unwrap();
    if e.bytes.len() != 19 || ref_decode(&Shape::U128, &e.bytes).unwrap().value != Value::U(u128::MAX) {
        return Err("u128 max".into());
    }
    let mut over = e.bytes.clone();
    over[18] = 0x04;
    if ref_decode(&Shape::U128, &over).err() != Some(DecErr::BadVarint) {
        return Err("u128 overflow".into());
    }
    Ok(())
}
