//! Bit-serial Rocksoft-model CRC parameterised by catalogue *data*. DESIGN.md §3.4.

#[derive(Clone, Copy, Debug)]
pub struct Params {
    pub name: &'static str,
    pub width: u32,
    pub poly: u128,
    pub init: u128,
    pub refin: bool,
    pub refout: bool,
    pub xorout: u128,
    pub check: u128,
}

fn reflect(v: u128, width: u32) -> u128 {
    let mut r = 0u128;
    for i in 0..width {
        if (v >> i) & 1 == 1 {
            r |= 1 << (width - 1 - i);
        }
    }
    r
}

pub fn crc(p: &Params, data: &[u8]) -> u128 {
    let mask: u128 = if p.width == 128 { u128::MAX } else { (1u128 << p.width) - 1 };
    let mut reg = p.init & mask;
    for &byte in data {
        let b = if p.refin { byte.reverse_bits() } else { byte };
        for bit in (0..8).rev() {
            let top = (reg >> (p.width - 1)) & 1;
            let inb = ((b >> bit) & 1) as u128;
            reg = (reg << 1) & mask;
            if top ^ inb == 1 {
                reg ^= p.poly;
            }
        }
    }
    if p.refout {
        reg = reflect(reg, p.width);
    }
    (reg ^ p.xorout) & mask
}

macro_rules! params {
    ($name:ident) => {
        Params {
            name: stringify!($name),
            width: crc::$name.width as u32,
            poly: crc::$name.poly as u128,
            init: crc::$name.init as u128,
            refin: crc::$name.refin,
            refout: crc::$name.refout,
            xorout: crc::$name.xorout as u128,
            check: crc::$name.check as u128,
        }
    };
}

pub fn algs8() -> Vec<(Params, &'static crc::Algorithm<u8>)> {
    vec![
        (params!(CRC_8_SMBUS), &crc::CRC_8_SMBUS),
        (params!(CRC_8_BLUETOOTH), &crc::CRC_8_BLUETOOTH),
        (params!(CRC_8_DARC), &crc::CRC_8_DARC),
        (params!(CRC_8_MAXIM_DOW), &crc::CRC_8_MAXIM_DOW),
    ]
}
pub fn algs16() -> Vec<(Params, &'static crc::Algorithm<u16>)> {
    vec![
        (params!(CRC_16_IBM_SDLC), &crc::CRC_16_IBM_SDLC),
        (params!(CRC_16_XMODEM), &crc::CRC_16_XMODEM),
        (params!(CRC_16_USB), &crc::CRC_16_USB),
    ]
}
pub fn algs32() -> Vec<(Params, &'static crc::Algorithm<u32>)> {
    vec![
        (params!(CRC_32_ISCSI), &crc::CRC_32_ISCSI),
        (params!(CRC_32_ISO_HDLC), &crc::CRC_32_ISO_HDLC),
        (params!(CRC_32_BZIP2), &crc::CRC_32_BZIP2),
    ]
}
pub fn algs64() -> Vec<(Params, &'static crc::Algorithm<u64>)> {
    vec![
        (params!(CRC_64_ECMA_182), &crc::CRC_64_ECMA_182),
        (params!(CRC_64_XZ), &crc::CRC_64_XZ),
        (params!(CRC_64_GO_ISO), &crc::CRC_64_GO_ISO),
    ]
}
pub fn algs128() -> Vec<(Params, &'static crc::Algorithm<u128>)> {
    vec![(params!(CRC_82_DARC), &crc::CRC_82_DARC)]
}

pub fn all_params() -> Vec<Params> {
    let mut v = vec![];
    v.extend(algs8().into_iter().map(|x| x.0));
    v.extend(algs16().into_iter().map(|x| x.0));
    v.extend(algs32().into_iter().map(|x| x.0));
    v.extend(algs64().into_iter().map(|x| x.0));
    v.extend(algs128().into_iter().map(|x| x.0));
    v
}

pub fn self_test() -> Result<(), String> {
    for p in all_params() {
        let got = crc(&p, b"123456789");
        if got != p.check {
            return Err(format!("refcrc {}: {:#x} != check {:#x}", p.name, got, p.check));
        }
    }
    Ok(())
}
