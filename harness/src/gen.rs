//! proptest strategies for shapes and values. DESIGN.md §3.1 "Generators".

use crate::dynshape::{Name, Shape, VKind, Value, Variant, NAME_POOL};
use proptest::prelude::*;
use proptest::strategy::{BoxedStrategy, Just, Strategy};

/// Monotone index mapping (never `%`, so shrinking moves towards index 0).
#[inline]
pub fn pick_idx(raw: u16, len: usize) -> usize {
    ((raw as usize) * len) >> 16
}

pub fn arb_name() -> impl Strategy<Value = Name> {
    any::<u16>().prop_map(|r| Name(NAME_POOL[pick_idx(r, NAME_POOL.len())]))
}

/// Enum discriminants: boundary-rich.
const INDEX_POOL: &[u32] = &[
    0, 1, 2, 3, 4, 5, 126, 127, 128, 129, 255, 256, 16383, 16384, 16385, 65535, 65536, 70000,
    2097151, 2097152, 268435455, 268435456, 0x7FFF_FFFF, 0x8000_0000, u32::MAX - 1, u32::MAX,
];

#[derive(Clone, Debug)]
pub struct ShapeCfg {
    pub depth: u32,
    pub width: usize,
    /// allow Usize/Isize
    pub ptr_sized: bool,
    /// allow DisplayStr / UnsizedSeq / UnsizedMap
    pub encoder_only: bool,
    /// allow borrowed Str/Bytes
    pub borrowed: bool,
    /// allow maps
    pub maps: bool,
    /// allow 128-bit
    pub wide_ints: bool,
    /// sequential (0..n) instead of sparse enum indices
    pub dense_enum_indices: bool,
    /// allow zero-width sequence elements
    pub allow_zero_width_elems: bool,
}

impl Default for ShapeCfg {
    fn default() -> Self {
        ShapeCfg {
            depth: 4,
            width: 5,
            ptr_sized: true,
            encoder_only: false,
            borrowed: true,
            maps: true,
            wide_ints: true,
            dense_enum_indices: false,
            allow_zero_width_elems: true,
        }
    }
}

pub fn arb_leaf(cfg: &ShapeCfg) -> BoxedStrategy<Shape> {
    let mut v: Vec<Shape> = vec![
        Shape::Bool,
        Shape::I8,
        Shape::I16,
        Shape::I32,
        Shape::I64,
        Shape::U8,
        Shape::U16,
        Shape::U32,
        Shape::U64,
        Shape::F32,
        Shape::F64,
        Shape::Char,
        Shape::String,
        Shape::ByteBuf,
        Shape::Unit,
    ];
    if cfg.wide_ints {
        v.push(Shape::I128);
        v.push(Shape::U128);
    }
    if cfg.borrowed {
        v.push(Shape::Str);
        v.push(Shape::Bytes);
    }
    if cfg.ptr_sized {
        v.push(Shape::Usize);
        v.push(Shape::Isize);
    }
    if cfg.encoder_only {
        v.push(Shape::DisplayStr);
    }
    let n = v.len();
    prop_oneof![
        8 => any::<u16>().prop_map(move |r| v[pick_idx(r, n)].clone()),
        1 => arb_name().prop_map(Shape::UnitStruct),
    ]
    .boxed()
}

fn distinct_indices(n: usize, dense: bool) -> BoxedStrategy<Vec<u32>> {
    if dense {
        Just((0..n as u32).collect()).boxed()
    } else {
        prop_oneof![
            1 => Just((0..n as u32).collect::<Vec<u32>>()),
            2 => proptest::collection::vec(any::<u16>(), n).prop_map(move |raws| {
                let mut out: Vec<u32> = Vec::with_capacity(n);
                for r in raws {
                    let mut i = pick_idx(r, INDEX_POOL.len());
                    // linear probe for a fresh index (deterministic)
                    while out.contains(&INDEX_POOL[i]) {
                        i = (i + 1) % INDEX_POOL.len();
                    }
                    out.push(INDEX_POOL[i]);
                }
                out
            }),
        ]
        .boxed()
    }
}

fn fields(inner: BoxedStrategy<Shape>, max: usize) -> impl Strategy<Value = Vec<(Name, Shape)>> {
    proptest::collection::vec((arb_name(), inner), 0..=max)
}

fn arb_vkind(inner: BoxedStrategy<Shape>, width: usize) -> impl Strategy<Value = VKind> {
    prop_oneof![
        2 => Just(VKind::Unit),
        2 => inner.clone().prop_map(|s| VKind::Newtype(Box::new(s))),
        2 => proptest::collection::vec(inner.clone(), 0..=width).prop_map(VKind::Tuple),
        2 => fields(inner, width).prop_map(VKind::Struct),
    ]
}

pub fn arb_shape(cfg: ShapeCfg) -> BoxedStrategy<Shape> {
    let leaf = arb_leaf(&cfg);
    let width = cfg.width;
    let c = cfg.clone();
    leaf.prop_recursive(cfg.depth, 48, width as u32, move |inner| {
        let c = c.clone();
        let seq_elem: BoxedStrategy<Shape> = if c.allow_zero_width_elems {
            inner.clone()
        } else {
            inner.clone().prop_filter("zero-width element", |s| !s.zero_width()).boxed()
        };
        let mut alts: Vec<(u32, BoxedStrategy<Shape>)> = vec![
            (3, inner.clone().prop_map(|s| Shape::Option(Box::new(s))).boxed()),
            (2, (arb_name(), inner.clone()).prop_map(|(n, s)| Shape::Newtype(n, Box::new(s))).boxed()),
            (3, seq_elem.clone().prop_map(|s| Shape::Seq(Box::new(s))).boxed()),
            (3, proptest::collection::vec(inner.clone(), 0..=width).prop_map(Shape::Tuple).boxed()),
            (
                2,
                (arb_name(), proptest::collection::vec(inner.clone(), 0..=width))
                    .prop_map(|(n, v)| Shape::TupleStruct(n, v))
                    .boxed(),
            ),
            (
                4,
                (arb_name(), fields(inner.clone(), width))
                    .prop_map(|(n, f)| Shape::Struct(n, f))
                    .boxed(),
            ),
            (4, {
                let dense = c.dense_enum_indices;
                let inner2 = inner.clone();
                (arb_name(), 1..=width.max(1))
                    .prop_flat_map(move |(n, k)| {
                        (
                            Just(n),
                            distinct_indices(k, dense),
                            proptest::collection::vec((arb_name(), arb_vkind(inner2.clone(), width)), k),
                        )
                    })
                    .prop_map(|(n, idx, vs)| {
                        Shape::Enum(
                            n,
                            idx.into_iter()
                                .zip(vs)
                                .map(|(index, (name, kind))| Variant { index, name, kind })
                                .collect(),
                        )
                    })
                    .boxed()
            }),
        ];
        if c.maps {
            alts.push((
                2,
                (inner.clone(), inner.clone())
                    .prop_map(|(k, v)| Shape::Map(Box::new(k), Box::new(v)))
                    .boxed(),
            ));
        }
        if c.encoder_only {
            alts.push((1, inner.clone().prop_map(|s| Shape::UnsizedSeq(Box::new(s))).boxed()));
            alts.push((
                1,
                (inner.clone(), inner.clone())
                    .prop_map(|(k, v)| Shape::UnsizedMap(Box::new(k), Box::new(v)))
                    .boxed(),
            ));
        }
        proptest::strategy::Union::new_weighted(alts)
    })
    .boxed()
}

// ---------------------------------------------------------------------------------------
// values
// ---------------------------------------------------------------------------------------

/// Unsigned integer of `bits` bits: bit-length-uniform mixed with boundaries.
pub fn arb_unsigned(bits: u32) -> BoxedStrategy<u128> {
    let max: u128 = if bits == 128 { u128::MAX } else { (1u128 << bits) - 1 };
    prop_oneof![
        // choose a bit length then a value of that length
        6 => (0..=bits, any::<u128>()).prop_map(move |(len, r)| {
            if len == 0 { 0 } else {
                let m: u128 = if len == 128 { u128::MAX } else { (1u128 << len) - 1 };
                (r & m) | (1u128 << (len - 1))
            }
        }),
        // 2^k - 1, 2^k, 2^k + 1
        3 => (0..bits, 0..3u8).prop_map(move |(k, d)| {
            let p = 1u128 << k;
            (match d { 0 => p - 1, 1 => p, _ => p.wrapping_add(1) }) & max
        }),
        1 => Just(0u128),
        1 => Just(max),
        // single non-zero byte
        1 => (0..((bits + 7) / 8), 1..=255u8).prop_map(move |(pos, b)| ((b as u128) << (8 * pos)) & max),
    ]
    .boxed()
}

pub fn arb_signed(bits: u32) -> BoxedStrategy<i128> {
    let min: i128 = if bits == 128 { i128::MIN } else { -(1i128 << (bits - 1)) };
    let max: i128 = if bits == 128 { i128::MAX } else { (1i128 << (bits - 1)) - 1 };
    prop_oneof![
        6 => (arb_unsigned(bits - 1), any::<bool>()).prop_map(|(m, neg)| {
            let m = m as i128;
            if neg { -m - 1 } else { m }
        }),
        1 => Just(0i128),
        1 => Just(-1i128),
        1 => Just(1i128),
        1 => Just(min),
        1 => Just(max),
        1 => Just(min + 1),
        1 => Just(max - 1),
    ]
    .boxed()
}

const F32_SPECIAL: &[u32] = &[
    0x0000_0000, 0x8000_0000, 0x7F80_0000, 0xFF80_0000, 0x7FC0_0000, 0xFFC0_0000, 0x7F80_0001,
    0x7FBF_FFFF, 0xFFFF_FFFF, 0x0000_0001, 0x007F_FFFF, 0x0080_0000, 0x7F7F_FFFF, 0x3F80_0000,
    0xC200_0600,
];
const F64_SPECIAL: &[u64] = &[
    0,
    0x8000_0000_0000_0000,
    0x7FF0_0000_0000_0000,
    0xFFF0_0000_0000_0000,
    0x7FF8_0000_0000_0000,
    0xFFF8_0000_0000_0000,
    0x7FF0_0000_0000_0001,
    0x7FF7_FFFF_FFFF_FFFF,
    0xFFFF_FFFF_FFFF_FFFF,
    1,
    0x000F_FFFF_FFFF_FFFF,
    0x0010_0000_0000_0000,
    0x7FEF_FFFF_FFFF_FFFF,
    0x3FF0_0000_0000_0000,
    0xC040_00C0_0000_0000,
];

pub fn arb_f32_bits() -> BoxedStrategy<u32> {
    prop_oneof![
        3 => any::<u32>(),
        1 => any::<u16>().prop_map(|r| F32_SPECIAL[pick_idx(r, F32_SPECIAL.len())]),
        // NaNs with random payloads
        1 => (any::<bool>(), 1u32..0x0080_0000).prop_map(|(s, p)| ((s as u32) << 31) | 0x7F80_0000 | p),
    ]
    .boxed()
}

pub fn arb_f64_bits() -> BoxedStrategy<u64> {
    prop_oneof![
        3 => any::<u64>(),
        1 => any::<u16>().prop_map(|r| F64_SPECIAL[pick_idx(r, F64_SPECIAL.len())]),
        1 => (any::<bool>(), 1u64..0x0010_0000_0000_0000)
            .prop_map(|(s, p)| ((s as u64) << 63) | 0x7FF0_0000_0000_0000 | p),
    ]
    .boxed()
}

const CHAR_SPECIAL: &[u32] = &[
    0, 1, 0x41, 0x7F, 0x80, 0x7FF, 0x800, 0xD7FF, 0xE000, 0xFFFD, 0xFFFF, 0x10000, 0x10FFFF, 0xE9, 0x540D, 0xA0, 0xC0, 0xFF, 0x100,
    0x1F600,
];

pub fn arb_char() -> BoxedStrategy<char> {
    prop_oneof![
        3 => any::<char>(),
        2 => (0u32..0x110000).prop_map(|c| char::from_u32(c).unwrap_or('\u{FFFD}')),
        2 => any::<u16>().prop_map(|r| char::from_u32(CHAR_SPECIAL[pick_idx(r, CHAR_SPECIAL.len())]).unwrap()),
    ]
    .boxed()
}

/// Lengths: mostly small, sometimes at varint boundaries.
pub fn arb_len(max_big: usize) -> BoxedStrategy<usize> {
    let bounds: Vec<usize> = [0usize, 1, 2, 126, 127, 128, 129, 253, 254, 255, 256, 257, 300, 383, 384, 511, 512, 600, 1000, 16383, 16384, 16385]
        .iter()
        .copied()
        .filter(|n| *n <= max_big)
        .collect();
    let nb = bounds.len();
    prop_oneof![
        12 => 0usize..6,
        3 => 0usize..40,
        1 => any::<u16>().prop_map(move |r| bounds[pick_idx(r, nb)]),
    ]
    .boxed()
}

pub fn arb_string(max_big: usize) -> BoxedStrategy<String> {
    arb_len(max_big)
        .prop_flat_map(|n| {
            prop_oneof![
                3 => proptest::collection::vec(0x20u8..0x7F, n).prop_map(|v| String::from_utf8(v).unwrap()),
                2 => proptest::collection::vec(arb_char(), n / 2).prop_map(|v| v.into_iter().collect::<String>()),
                1 => Just("\0".repeat(n)),
            ]
        })
        .boxed()
}

pub fn arb_bytes(max_big: usize) -> BoxedStrategy<Vec<u8>> {
    arb_len(max_big)
        .prop_flat_map(|n| {
            prop_oneof![
                3 => proptest::collection::vec(any::<u8>(), n),
                1 => proptest::collection::vec(1u8..=255, n),
                1 => proptest::collection::vec(prop_oneof![Just(0u8), Just(1u8), Just(0xFFu8)], n),
            ]
        })
        .boxed()
}

#[derive(Clone, Copy, Debug)]
pub struct ValCfg {
    /// largest "boundary" length for strings/bytes/sequences
    pub max_len: usize,
    /// largest sequence length of composite elements
    pub max_seq: usize,
}

impl Default for ValCfg {
    fn default() -> Self {
        ValCfg {
            max_len: 300,
            max_seq: 6,
        }
    }
}

fn list_of(shapes: Vec<Shape>, cfg: ValCfg) -> BoxedStrategy<Value> {
    let strategies: Vec<BoxedStrategy<Value>> = shapes.iter().map(|s| arb_value(s, cfg)).collect();
    strategies.prop_map(Value::List).boxed()
}

fn seq_len(elem: &Shape, cfg: ValCfg) -> BoxedStrategy<usize> {
    if elem.is_composite() {
        (0..=cfg.max_seq).boxed()
    } else {
        arb_len(cfg.max_len)
    }
}

pub fn arb_value(shape: &Shape, cfg: ValCfg) -> BoxedStrategy<Value> {
    match shape {
        Shape::Bool => any::<bool>().prop_map(Value::Bool).boxed(),
        Shape::I8 => arb_signed(8).prop_map(Value::I).boxed(),
        Shape::I16 => arb_signed(16).prop_map(Value::I).boxed(),
        Shape::I32 => arb_signed(32).prop_map(Value::I).boxed(),
        Shape::I64 | Shape::Isize => arb_signed(64).prop_map(Value::I).boxed(),
        Shape::I128 => arb_signed(128).prop_map(Value::I).boxed(),
        Shape::U8 => arb_unsigned(8).prop_map(Value::U).boxed(),
        Shape::U16 => arb_unsigned(16).prop_map(Value::U).boxed(),
        Shape::U32 => arb_unsigned(32).prop_map(Value::U).boxed(),
        Shape::U64 | Shape::Usize => arb_unsigned(64).prop_map(Value::U).boxed(),
        Shape::U128 => arb_unsigned(128).prop_map(Value::U).boxed(),
        Shape::F32 => arb_f32_bits().prop_map(Value::F32).boxed(),
        Shape::F64 => arb_f64_bits().prop_map(Value::F64).boxed(),
        Shape::Char => arb_char().prop_map(Value::Char).boxed(),
        Shape::Str | Shape::String => arb_string(cfg.max_len).prop_map(Value::Str).boxed(),
        Shape::Bytes | Shape::ByteBuf => arb_bytes(cfg.max_len).prop_map(Value::Bytes).boxed(),
        Shape::Option(inner) => {
            let s = arb_value(inner, cfg);
            prop_oneof![
                1 => Just(Value::None),
                3 => s.prop_map(|v| Value::Some(Box::new(v))),
            ]
            .boxed()
        }
        Shape::Unit | Shape::UnitStruct(_) => Just(Value::Unit).boxed(),
        Shape::Newtype(_, inner) => arb_value(inner, cfg).prop_map(|v| Value::Newtype(Box::new(v))).boxed(),
        Shape::Seq(elem) | Shape::UnsizedSeq(elem) => {
            let sub = ValCfg { max_seq: (cfg.max_seq / 2).max(1), ..cfg };
            let es = arb_value(elem, sub);
            seq_len(elem, cfg)
                .prop_flat_map(move |n| proptest::collection::vec(es.clone(), n))
                .prop_map(Value::List)
                .boxed()
        }
        Shape::Tuple(shapes) | Shape::TupleStruct(_, shapes) => list_of(shapes.clone(), cfg),
        Shape::Struct(_, fields) => list_of(fields.iter().map(|(_, s)| s.clone()).collect(), cfg),
        Shape::Map(k, v) | Shape::UnsizedMap(k, v) => {
            let sub = ValCfg { max_seq: (cfg.max_seq / 2).max(1), ..cfg };
            let ks = arb_value(k, sub);
            let vs = arb_value(v, sub);
            (0..=cfg.max_seq)
                .prop_flat_map(move |n| proptest::collection::vec((ks.clone(), vs.clone()), n))
                .prop_map(Value::Map)
                .boxed()
        }
        Shape::Enum(_, variants) => {
            let alts: Vec<BoxedStrategy<Value>> = variants
                .iter()
                .enumerate()
                .map(|(pos, var)| {
                    let payload: BoxedStrategy<Value> = match &var.kind {
                        VKind::Unit => Just(Value::Unit).boxed(),
                        VKind::Newtype(inner) => arb_value(inner, cfg),
                        VKind::Tuple(shapes) => list_of(shapes.clone(), cfg),
                        VKind::Struct(fields) => list_of(fields.iter().map(|(_, s)| s.clone()).collect(), cfg),
                    };
                    payload.prop_map(move |p| Value::Variant(pos, Box::new(p))).boxed()
                })
                .collect();
            proptest::strategy::Union::new(alts).boxed()
        }
        Shape::DisplayStr => (arb_string(cfg.max_len), proptest::collection::vec(any::<u16>(), 0..5))
            .prop_map(|(s, cuts)| {
                // split the text into pieces at char boundaries
                let mut idx: Vec<usize> = cuts.iter().map(|c| pick_idx(*c, s.len() + 1)).collect();
                idx.sort();
                let mut pieces = vec![];
                let mut last = 0;
                for mut i in idx {
                    while !s.is_char_boundary(i) {
                        i -= 1;
                    }
                    if i >= last {
                        pieces.push(s[last..i].to_string());
                        last = i;
                    }
                }
                pieces.push(s[last..].to_string());
                Value::Pieces(pieces)
            })
            .boxed(),
    }
}

/// (shape, value) pairs that shrink as one value.
pub fn arb_typed(scfg: ShapeCfg, vcfg: ValCfg) -> BoxedStrategy<(Shape, Value)> {
    arb_shape(scfg)
        .prop_flat_map(move |s| {
            let vs = arb_value(&s, vcfg);
            (Just(s), vs)
        })
        .boxed()
}

/// Deep chains: Option^k, Newtype^k, Seq^k around a leaf.
pub fn arb_deep_chain(max_k: usize) -> BoxedStrategy<Shape> {
    (arb_leaf(&ShapeCfg::default()), 1..=max_k, 0..4u8)
        .prop_map(|(leaf, k, kind)| {
            let mut s = leaf;
            for i in 0..k {
                s = match (kind, i % 3) {
                    (0, _) => Shape::Option(Box::new(s)),
                    (1, _) => Shape::Newtype(Name("N"), Box::new(s)),
                    (2, _) => Shape::Seq(Box::new(s)),
                    (_, 0) => Shape::Option(Box::new(s)),
                    (_, 1) => Shape::Newtype(Name("N"), Box::new(s)),
                    (_, _) => Shape::Tuple(vec![s]),
                };
            }
            s
        })
        .boxed()
}

/// Wide aggregates: tuples/structs with up to `max_w` scalar fields.
pub fn arb_wide(max_w: usize) -> BoxedStrategy<Shape> {
    let cfg = ShapeCfg::default();
    (proptest::collection::vec((arb_name(), arb_leaf(&cfg)), 0..=max_w), any::<bool>())
        .prop_map(|(fs, as_struct)| {
            if as_struct {
                Shape::Struct(Name("Wide"), fs)
            } else {
                Shape::Tuple(fs.into_iter().map(|(_, s)| s).collect())
            }
        })
        .boxed()
}

/// Long collections (100-1500 elements) whose elements are options (mostly `None` or mostly `Some`), unit variants,
/// small records with optional fields: lots of elements, little data per element.
pub fn arb_long_sparse() -> BoxedStrategy<(Shape, Value)> {
    use crate::dynshape::{Name, VKind, Variant};
    let n = prop_oneof![Just(125usize), Just(126), Just(127), Just(128), Just(129), Just(130), Just(255), Just(256), Just(257), 100usize..400, Just(1000), Just(1500)];
    (n, 0..8u8, any::<u64>())
        .prop_map(|(n, kind, seed)| {
            let bit = |i: usize| (seed >> (i % 61)) & 1 == 1;
            let opt_u16 = Shape::Option(Box::new(Shape::U16));
            let record = Shape::Struct(Name("Rec"), vec![(Name("a"), Shape::Option(Box::new(Shape::U8))), (Name("b"), Shape::Option(Box::new(Shape::String))), (Name("id"), Shape::U8)]);
            let unit_enum = Shape::Enum(
                Name("Flag"),
                vec![
                    Variant { index: 0, name: Name("Off"), kind: VKind::Unit },
                    Variant { index: 1, name: Name("On"), kind: VKind::Unit },
                    Variant { index: 2, name: Name("Val"), kind: VKind::Newtype(Box::new(Shape::Option(Box::new(Shape::Bool)))) },
                ],
            );
            match kind {
                0 => (Shape::Seq(Box::new(opt_u16)), Value::List(vec![Value::None; n])),
                1 => (Shape::Seq(Box::new(opt_u16)), Value::List((0..n).map(|i| Value::Some(Box::new(Value::U(i as u128 % 70000)))).collect())),
                2 => (
                    Shape::Seq(Box::new(opt_u16)),
                    Value::List((0..n).map(|i| if bit(i) { Value::Some(Box::new(Value::U(i as u128))) } else { Value::None }).collect()),
                ),
                3 => (
                    Shape::Seq(Box::new(record)),
                    Value::List(
                        (0..n)
                            .map(|i| {
                                Value::List(vec![
                                    if bit(i) { Value::Some(Box::new(Value::U(i as u128 % 256))) } else { Value::None },
                                    if bit(i + 7) { Value::Some(Box::new(Value::Str(format!("s{}", i)))) } else { Value::None },
                                    Value::U(i as u128 % 256),
                                ])
                            })
                            .collect(),
                    ),
                ),
                4 => (
                    Shape::Seq(Box::new(unit_enum)),
                    Value::List(
                        (0..n)
                            .map(|i| match i % 3 {
                                0 => Value::Variant(0, Box::new(Value::Unit)),
                                1 => Value::Variant(1, Box::new(Value::Unit)),
                                _ => Value::Variant(2, Box::new(if bit(i) { Value::Some(Box::new(Value::Bool(true))) } else { Value::None })),
                            })
                            .collect(),
                    ),
                ),
                5 => (
                    Shape::Map(Box::new(Shape::String), Box::new(Shape::Option(Box::new(Shape::U8)))),
                    Value::Map((0..n).map(|i| (Value::Str(format!("k{:05}", i)), if bit(i) { Value::Some(Box::new(Value::U(7))) } else { Value::None })).collect()),
                ),
                6 => (
                    Shape::Tuple(vec![Shape::Seq(Box::new(Shape::Option(Box::new(Shape::Tuple(vec![Shape::U8, Shape::Bool]))))), Shape::Option(Box::new(Shape::Seq(Box::new(Shape::U8))))]),
                    Value::List(vec![
                        Value::List((0..n).map(|i| if bit(i) { Value::Some(Box::new(Value::List(vec![Value::U(1), Value::Bool(false)]))) } else { Value::None }).collect()),
                        Value::Some(Box::new(Value::List(vec![Value::U(9); 3]))),
                    ]),
                ),
                _ => (Shape::Seq(Box::new(Shape::Seq(Box::new(Shape::Option(Box::new(Shape::I8)))))), Value::List((0..n / 4).map(|i| Value::List(vec![Value::None, Value::Some(Box::new(Value::I(-(i as i128 % 100)))), Value::None, Value::None])).collect())),
            }
        })
        .boxed()
}
