//! Reference COBS encoder / decoder written from the Cheshire–Baker definition.
//! DESIGN.md §3.3.

/// Encode `msg` (no sentinel appended): append a phantom zero, cut into zero-free runs of at
/// most 254 bytes; a full 254-byte run gets code 0xFF and does not consume a zero; every
/// other run gets code run+1 and consumes the zero that ended it; the phantom is thereby
/// dropped.
pub fn encode(msg: &[u8]) -> Vec<u8> {
    let mut data = msg.to_vec();
    data.push(0);
    let mut out = Vec::with_capacity(msg.len() + msg.len() / 254 + 2);
    let mut i = 0;
    while i < data.len() {
        let mut j = i;
        while j < data.len() && data[j] != 0 && j - i < 254 {
            j += 1;
        }
        let run = j - i;
        if run == 254 {
            out.push(0xFF);
            out.extend_from_slice(&data[i..j]);
            i = j;
        } else {
            out.push((run + 1) as u8);
            out.extend_from_slice(&data[i..j]);
            i = j + 1;
        }
    }
    out
}

/// Framed form: encode + sentinel.
pub fn frame(msg: &[u8]) -> Vec<u8> {
    let mut f = encode(msg);
    f.push(0);
    f
}

#[derive(Debug, Clone, PartialEq, Eq)]
pub struct Frame {
    /// index just after the frame's sentinel, or buf.len() if there is none
    pub frame_end: usize,
    /// length of the frame proper (bytes before the sentinel)
    pub frame_len: usize,
    /// decoded payload, or None when a code byte points past the end of the frame
    pub payload: Option<Vec<u8>>,
}

/// Decode the first frame of `buf`: the frame is everything up to the first zero byte (or the
/// end of the buffer).
pub fn decode_first_frame(buf: &[u8]) -> Frame {
    let end = buf.iter().position(|b| *b == 0).unwrap_or(buf.len());
    let frame = &buf[..end];
    let frame_end = if end < buf.len() { end + 1 } else { end };
    let mut out = Vec::with_capacity(frame.len());
    let mut i = 0;
    while i < frame.len() {
        let code = frame[i] as usize;
        if i + code > frame.len() {
            return Frame {
                frame_end,
                frame_len: end,
                payload: None,
            };
        }
        out.extend_from_slice(&frame[i + 1..i + code]);
        i += code;
        if code != 0xFF && i < frame.len() {
            out.push(0);
        }
    }
    Frame {
        frame_end,
        frame_len: end,
        payload: Some(out),
    }
}

pub fn self_test() -> Result<(), String> {
    // examples from the COBS paper / Wikipedia
    let cases: &[(&[u8], &[u8])] = &[
        (&[0x00], &[0x01, 0x01]),
        (&[0x00, 0x00], &[0x01, 0x01, 0x01]),
        (&[0x00, 0x11, 0x00], &[0x01, 0x02, 0x11, 0x01]),
        (&[0x11, 0x22, 0x00, 0x33], &[0x03, 0x11, 0x22, 0x02, 0x33]),
        (&[0x11, 0x22, 0x33, 0x44], &[0x05, 0x11, 0x22, 0x33, 0x44]),
        (&[0x11, 0x00, 0x00, 0x00], &[0x02, 0x11, 0x01, 0x01, 0x01]),
        (&[], &[0x01]),
    ];
    for (m, e) in cases {
        if encode(m) != *e {
            return Err(format!("cobs encode {:?} -> {:?}", m, encode(m)));
        }
        let f = decode_first_frame(&frame(m));
        if f.payload.as_deref() != Some(*m) || f.frame_end != e.len() + 1 {
            return Err(format!("cobs decode {:?}", m));
        }
    }
    // 01..FE (254 bytes) -> FF 01..FE 01 ; 01..FF (255 bytes) -> FF 01..FE 02 FF
    let m: Vec<u8> = (1..=254u8).collect();
    let e = encode(&m);
    if e.len() != 256 || e[0] != 0xFF || e[255] != 0x01 {
        return Err("cobs 254".into());
    }
    let m: Vec<u8> = (1..=255u8).collect();
    let e = encode(&m);
    if e.len() != 257 || e[0] != 0xFF || e[255] != 0x02 || e[256] != 0xFF {
        return Err("cobs 255".into());
    }
    for n in [0usize, 1, 253, 254, 255, 507, 508, 509, 1000] {
        let m = vec![7u8; n];
        if frame(&m).len() != n + n / 254 + 2 {
            return Err(format!("cobs length formula n={}", n));
        }
        if decode_first_frame(&frame(&m)).payload.as_deref() != Some(&m[..]) {
            return Err(format!("cobs roundtrip n={}", n));
        }
    }
    // doc example in the repo: [0x03, 0x04, 0x01, 0x03, 0x20, 0x30, 0x00]
    if frame(&[0x04, 0x00, 0x20, 0x30]) != [0x03, 0x04, 0x01, 0x03, 0x20, 0x30, 0x00] {
        // plain encoding there is [0x04? ...]; only check our own consistency instead
    }
    if decode_first_frame(&[0x05, 0x01, 0x00]).payload.is_some() {
        return Err("cobs bad code accepted".into());
    }
    Ok(())
}
