//! Recording serde::Serializer: builds the call tree a value serialises as (DESIGN.md §3.7),
//! and the strict conformance relation between a call tree and a schema (C14).

use postcard_schema::schema::owned::{OwnedData, OwnedDataModelType};
use serde::ser::{self, Serialize};
use std::fmt;

#[derive(Clone, Debug, PartialEq)]
pub enum Call {
    Bool(bool),
    I8(i8),
    I16(i16),
    I32(i32),
    I64(i64),
    I128(i128),
    U8(u8),
    U16(u16),
    U32(u32),
    U64(u64),
    U128(u128),
    F32(u32),
    F64(u64),
    Char(char),
    Str(String),
    Bytes(Vec<u8>),
    None,
    Some(Box<Call>),
    Unit,
    UnitStruct(&'static str),
    NewtypeStruct(&'static str, Box<Call>),
    Seq(Option<usize>, Vec<Call>),
    Tuple(usize, Vec<Call>),
    TupleStruct(&'static str, usize, Vec<Call>),
    Map(Option<usize>, Vec<(Call, Call)>),
    Struct(&'static str, usize, Vec<(&'static str, Call)>),
    UnitVariant(&'static str, u32, &'static str),
    NewtypeVariant(&'static str, u32, &'static str, Box<Call>),
    TupleVariant(&'static str, u32, &'static str, usize, Vec<Call>),
    StructVariant(&'static str, u32, &'static str, usize, Vec<(&'static str, Call)>),
}

#[derive(Debug)]
pub struct RecErr(pub String);
impl fmt::Display for RecErr {
    fn fmt(&self, f: &mut fmt::Formatter) -> fmt::Result {
        f.write_str(&self.0)
    }
}
impl std::error::Error for RecErr {}
impl ser::Error for RecErr {
    fn custom<T: fmt::Display>(m: T) -> Self {
        RecErr(m.to_string())
    }
}

pub struct Recorder;

pub fn record<T: Serialize + ?Sized>(v: &T) -> Result<Call, RecErr> {
    v.serialize(Recorder)
}

pub struct SeqRec(Option<usize>, Vec<Call>);
pub struct TupRec(usize, Vec<Call>);
pub struct TupStructRec(&'static str, usize, Vec<Call>);
pub struct TupVarRec(&'static str, u32, &'static str, usize, Vec<Call>);
pub struct MapRec(Option<usize>, Vec<(Call, Call)>, Option<Call>);
pub struct StructRec(&'static str, usize, Vec<(&'static str, Call)>);
pub struct StructVarRec(&'static str, u32, &'static str, usize, Vec<(&'static str, Call)>);

impl ser::Serializer for Recorder {
    type Ok = Call;
    type Error = RecErr;
    type SerializeSeq = SeqRec;
    type SerializeTuple = TupRec;
    type SerializeTupleStruct = TupStructRec;
    type SerializeTupleVariant = TupVarRec;
    type SerializeMap = MapRec;
    type SerializeStruct = StructRec;
    type SerializeStructVariant = StructVarRec;

    fn is_human_readable(&self) -> bool {
        false
    }
    fn serialize_bool(self, v: bool) -> Result<Call, RecErr> {
        Ok(Call::Bool(v))
    }
    fn serialize_i8(self, v: i8) -> Result<Call, RecErr> {
        Ok(Call::I8(v))
    }
    fn serialize_i16(self, v: i16) -> Result<Call, RecErr> {
        Ok(Call::I16(v))
    }
    fn serialize_i32(self, v: i32) -> Result<Call, RecErr> {
        Ok(Call::I32(v))
    }
    fn serialize_i64(self, v: i64) -> Result<Call, RecErr> {
        Ok(Call::I64(v))
    }
    fn serialize_i128(self, v: i128) -> Result<Call, RecErr> {
        Ok(Call::I128(v))
    }
    fn serialize_u8(self, v: u8) -> Result<Call, RecErr> {
        Ok(Call::U8(v))
    }
    fn serialize_u16(self, v: u16) -> Result<Call, RecErr> {
        Ok(Call::U16(v))
    }
    fn serialize_u32(self, v: u32) -> Result<Call, RecErr> {
        Ok(Call::U32(v))
    }
    fn serialize_u64(self, v: u64) -> Result<Call, RecErr> {
        Ok(Call::U64(v))
    }
    fn serialize_u128(self, v: u128) -> Result<Call, RecErr> {
        Ok(Call::U128(v))
    }
    fn serialize_f32(self, v: f32) -> Result<Call, RecErr> {
        Ok(Call::F32(v.to_bits()))
    }
    fn serialize_f64(self, v: f64) -> Result<Call, RecErr> {
        Ok(Call::F64(v.to_bits()))
    }
    fn serialize_char(self, v: char) -> Result<Call, RecErr> {
        Ok(Call::Char(v))
    }
    fn serialize_str(self, v: &str) -> Result<Call, RecErr> {
        Ok(Call::Str(v.to_string()))
    }
    fn serialize_bytes(self, v: &[u8]) -> Result<Call, RecErr> {
        Ok(Call::Bytes(v.to_vec()))
    }
    fn serialize_none(self) -> Result<Call, RecErr> {
        Ok(Call::None)
    }
    fn serialize_some<T: ?Sized + Serialize>(self, v: &T) -> Result<Call, RecErr> {
        Ok(Call::Some(Box::new(v.serialize(Recorder)?)))
    }
    fn serialize_unit(self) -> Result<Call, RecErr> {
        Ok(Call::Unit)
    }
    fn serialize_unit_struct(self, name: &'static str) -> Result<Call, RecErr> {
        Ok(Call::UnitStruct(name))
    }
    fn serialize_unit_variant(self, name: &'static str, idx: u32, var: &'static str) -> Result<Call, RecErr> {
        Ok(Call::UnitVariant(name, idx, var))
    }
    fn serialize_newtype_struct<T: ?Sized + Serialize>(self, name: &'static str, v: &T) -> Result<Call, RecErr> {
        Ok(Call::NewtypeStruct(name, Box::new(v.serialize(Recorder)?)))
    }
    fn serialize_newtype_variant<T: ?Sized + Serialize>(self, name: &'static str, idx: u32, var: &'static str, v: &T) -> Result<Call, RecErr> {
        Ok(Call::NewtypeVariant(name, idx, var, Box::new(v.serialize(Recorder)?)))
    }
    fn serialize_seq(self, len: Option<usize>) -> Result<SeqRec, RecErr> {
        Ok(SeqRec(len, vec![]))
    }
    fn serialize_tuple(self, len: usize) -> Result<TupRec, RecErr> {
        Ok(TupRec(len, vec![]))
    }
    fn serialize_tuple_struct(self, name: &'static str, len: usize) -> Result<TupStructRec, RecErr> {
        Ok(TupStructRec(name, len, vec![]))
    }
    fn serialize_tuple_variant(self, name: &'static str, idx: u32, var: &'static str, len: usize) -> Result<TupVarRec, RecErr> {
        Ok(TupVarRec(name, idx, var, len, vec![]))
    }
    fn serialize_map(self, len: Option<usize>) -> Result<MapRec, RecErr> {
        Ok(MapRec(len, vec![], None))
    }
    fn serialize_struct(self, name: &'static str, len: usize) -> Result<StructRec, RecErr> {
        Ok(StructRec(name, len, vec![]))
    }
    fn serialize_struct_variant(self, name: &'static str, idx: u32, var: &'static str, len: usize) -> Result<StructVarRec, RecErr> {
        Ok(StructVarRec(name, idx, var, len, vec![]))
    }
}

impl ser::SerializeSeq for SeqRec {
    type Ok = Call;
    type Error = RecErr;
    fn serialize_element<T: ?Sized + Serialize>(&mut self, v: &T) -> Result<(), RecErr> {
        self.1.push(v.serialize(Recorder)?);
        Ok(())
    }
    fn end(self) -> Result<Call, RecErr> {
        Ok(Call::Seq(self.0, self.1))
    }
}
impl ser::SerializeTuple for TupRec {
    type Ok = Call;
    type Error = RecErr;
    fn serialize_element<T: ?Sized + Serialize>(&mut self, v: &T) -> Result<(), RecErr> {
        self.1.push(v.serialize(Recorder)?);
        Ok(())
    }
    fn end(self) -> Result<Call, RecErr> {
        Ok(Call::Tuple(self.0, self.1))
    }
}
impl ser::SerializeTupleStruct for TupStructRec {
    type Ok = Call;
    type Error = RecErr;
    fn serialize_field<T: ?Sized + Serialize>(&mut self, v: &T) -> Result<(), RecErr> {
        self.2.push(v.serialize(Recorder)?);
        Ok(())
    }
    fn end(self) -> Result<Call, RecErr> {
        Ok(Call::TupleStruct(self.0, self.1, self.2))
    }
}
impl ser::SerializeTupleVariant for TupVarRec {
    type Ok = Call;
    type Error = RecErr;
    fn serialize_field<T: ?Sized + Serialize>(&mut self, v: &T) -> Result<(), RecErr> {
        self.4.push(v.serialize(Recorder)?);
        Ok(())
    }
    fn end(self) -> Result<Call, RecErr> {
        Ok(Call::TupleVariant(self.0, self.1, self.2, self.3, self.4))
    }
}
impl ser::SerializeMap for MapRec {
    type Ok = Call;
    type Error = RecErr;
    fn serialize_key<T: ?Sized + Serialize>(&mut self, k: &T) -> Result<(), RecErr> {
        self.2 = Some(k.serialize(Recorder)?);
        Ok(())
    }
    fn serialize_value<T: ?Sized + Serialize>(&mut self, v: &T) -> Result<(), RecErr> {
        let k = self.2.take().ok_or_else(|| RecErr("value without key".into()))?;
        self.1.push((k, v.serialize(Recorder)?));
        Ok(())
    }
    fn end(self) -> Result<Call, RecErr> {
        Ok(Call::Map(self.0, self.1))
    }
}
impl ser::SerializeStruct for StructRec {
    type Ok = Call;
    type Error = RecErr;
    fn serialize_field<T: ?Sized + Serialize>(&mut self, k: &'static str, v: &T) -> Result<(), RecErr> {
        self.2.push((k, v.serialize(Recorder)?));
        Ok(())
    }
    fn end(self) -> Result<Call, RecErr> {
        Ok(Call::Struct(self.0, self.1, self.2))
    }
}
impl ser::SerializeStructVariant for StructVarRec {
    type Ok = Call;
    type Error = RecErr;
    fn serialize_field<T: ?Sized + Serialize>(&mut self, k: &'static str, v: &T) -> Result<(), RecErr> {
        self.4.push((k, v.serialize(Recorder)?));
        Ok(())
    }
    fn end(self) -> Result<Call, RecErr> {
        Ok(Call::StructVariant(self.0, self.1, self.2, self.3, self.4))
    }
}

// ---------------------------------------------------------------------------------------
// strict conformance of a call tree to a schema
// ---------------------------------------------------------------------------------------

pub fn kind(c: &Call) -> String {
    let s = format!("{:?}", c);
    s.chars().take(60).collect()
}

fn all(calls: &[Call], schemas: &[OwnedDataModelType], what: &str) -> Result<(), String> {
    if calls.len() != schemas.len() {
        return Err(format!("{}: {} items serialised, schema declares {}", what, calls.len(), schemas.len()));
    }
    for (i, (c, s)) in calls.iter().zip(schemas).enumerate() {
        conforms(c, s).map_err(|e| format!("{}[{}]: {}", what, i, e))?;
    }
    Ok(())
}

fn data_conforms_struct(c: &Call, d: &OwnedData) -> Result<(), String> {
    match (c, d) {
        (Call::UnitStruct(_), OwnedData::Unit) => Ok(()),
        (Call::NewtypeStruct(_, inner), OwnedData::Newtype(t)) => conforms(inner, t),
        (Call::TupleStruct(_, len, items), OwnedData::Tuple(ts)) => {
            if *len != items.len() {
                return Err(format!("tuple struct announced {} fields, wrote {}", len, items.len()));
            }
            all(items, ts, "tuple struct")
        }
        (Call::Struct(_, len, fields), OwnedData::Struct(fs)) => {
            if *len != fields.len() || fields.len() != fs.len() {
                return Err(format!("struct serialised {} fields (announced {}), schema declares {}", fields.len(), len, fs.len()));
            }
            for ((name, c), f) in fields.iter().zip(fs.iter()) {
                if *name != &*f.name {
                    return Err(format!("field {:?} serialised where the schema declares {:?}", name, f.name));
                }
                conforms(c, &f.ty).map_err(|e| format!("field {}: {}", name, e))?;
            }
            Ok(())
        }
        _ => Err(format!("serialised as {} but the schema declares struct data {:?}", kind(c), std::mem::discriminant(d))),
    }
}

pub fn conforms(c: &Call, s: &OwnedDataModelType) -> Result<(), String> {
    use OwnedDataModelType as S;
    match (c, s) {
        (Call::Bool(_), S::Bool)
        | (Call::I8(_), S::I8)
        | (Call::U8(_), S::U8)
        | (Call::I16(_), S::I16)
        | (Call::I32(_), S::I32)
        | (Call::I64(_), S::I64)
        | (Call::I128(_), S::I128)
        | (Call::U16(_), S::U16)
        | (Call::U32(_), S::U32)
        | (Call::U64(_), S::U64)
        | (Call::U128(_), S::U128)
        | (Call::F32(_), S::F32)
        | (Call::F64(_), S::F64)
        | (Call::Char(_), S::Char)
        | (Call::Str(_), S::String)
        | (Call::Bytes(_), S::ByteArray)
        | (Call::Unit, S::Unit) => Ok(()),
        // usize / isize serialise through u64 / i64 on this host
        (Call::U64(_), S::Usize) | (Call::I64(_), S::Isize) => Ok(()),
        (Call::None, S::Option(_)) => Ok(()),
        (Call::Some(inner), S::Option(t)) => conforms(inner, t),
        (Call::Seq(len, items), S::Seq(t)) => {
            if *len != Some(items.len()) {
                return Err(format!("sequence announced length {:?}, wrote {}", len, items.len()));
            }
            for (i, it) in items.iter().enumerate() {
                conforms(it, t).map_err(|e| format!("seq[{}]: {}", i, e))?;
            }
            Ok(())
        }
        (Call::Tuple(len, items), S::Tuple(ts)) => {
            if *len != items.len() {
                return Err(format!("tuple announced {} elements, wrote {}", len, items.len()));
            }
            all(items, ts, "tuple")
        }
        (Call::Map(len, pairs), S::Map { key, val }) => {
            if *len != Some(pairs.len()) {
                return Err(format!("map announced length {:?}, wrote {}", len, pairs.len()));
            }
            for (k, v) in pairs {
                conforms(k, key).map_err(|e| format!("map key: {}", e))?;
                conforms(v, val).map_err(|e| format!("map value: {}", e))?;
            }
            Ok(())
        }
        (_, S::Struct { data, .. }) => data_conforms_struct(c, data),
        (Call::UnitVariant(_, idx, var), S::Enum { variants, .. })
        | (Call::NewtypeVariant(_, idx, var, _), S::Enum { variants, .. })
        | (Call::TupleVariant(_, idx, var, _, _), S::Enum { variants, .. })
        | (Call::StructVariant(_, idx, var, _, _), S::Enum { variants, .. }) => {
            let v = variants
                .get(*idx as usize)
                .ok_or_else(|| format!("variant index {} serialised, schema declares {} variants", idx, variants.len()))?;
            if *var != &*v.name {
                return Err(format!("variant index {} is {:?} in the value but {:?} in the schema", idx, var, v.name));
            }
            match (c, &v.data) {
                (Call::UnitVariant(..), OwnedData::Unit) => Ok(()),
                (Call::NewtypeVariant(_, _, _, inner), OwnedData::Newtype(t)) => conforms(inner, t).map_err(|e| format!("variant {}: {}", var, e)),
                (Call::TupleVariant(_, _, _, len, items), OwnedData::Tuple(ts)) => {
                    if *len != items.len() {
                        return Err(format!("tuple variant announced {} fields, wrote {}", len, items.len()));
                    }
                    all(items, ts, "tuple variant")
                }
                (Call::StructVariant(_, _, _, len, fields), OwnedData::Struct(fs)) => {
                    if *len != fields.len() || fields.len() != fs.len() {
                        return Err(format!("struct variant serialised {} fields, schema declares {}", fields.len(), fs.len()));
                    }
                    for ((name, c), f) in fields.iter().zip(fs.iter()) {
                        if *name != &*f.name {
                            return Err(format!("variant {} field {:?} serialised where the schema declares {:?}", var, name, f.name));
                        }
                        conforms(c, &f.ty).map_err(|e| format!("variant {} field {}: {}", var, name, e))?;
                    }
                    Ok(())
                }
                _ => Err(format!("variant {} serialised as {} but the schema declares another payload form", var, kind(c))),
            }
        }
        (_, S::Schema) => conforms_meta_type(c),
        _ => Err(format!("serialised as {} but the schema declares {:?}", kind(c), std::mem::discriminant(s))),
    }
}

// the documented layout of DataModelType itself (hand-written meta-schema)
const DMT_UNITS: &[(u32, &str)] = &[
    (0, "Bool"), (1, "I8"), (2, "U8"), (3, "I16"), (4, "I32"), (5, "I64"), (6, "I128"), (7, "U16"), (8, "U32"), (9, "U64"),
    (10, "U128"), (11, "Usize"), (12, "Isize"), (13, "F32"), (14, "F64"), (15, "Char"), (16, "String"), (17, "ByteArray"),
    (19, "Unit"), (25, "Schema"),
];

fn meta_seq(c: &Call, each: fn(&Call) -> Result<(), String>) -> Result<(), String> {
    match c {
        Call::Seq(Some(n), items) if *n == items.len() => items.iter().try_for_each(each),
        _ => Err(format!("expected a sequence, got {}", kind(c))),
    }
}

fn meta_str(c: &Call) -> Result<(), String> {
    match c {
        Call::Str(_) => Ok(()),
        _ => Err(format!("expected a string, got {}", kind(c))),
    }
}

pub fn conforms_meta_type(c: &Call) -> Result<(), String> {
    match c {
        Call::UnitVariant(_, idx, var) => {
            if DMT_UNITS.contains(&(*idx, *var)) {
                Ok(())
            } else {
                Err(format!("unit variant ({}, {}) is not part of the schema-of-schemas layout", idx, var))
            }
        }
        Call::NewtypeVariant(_, 18, "Option", inner) | Call::NewtypeVariant(_, 20, "Seq", inner) => conforms_meta_type(inner),
        Call::NewtypeVariant(_, 21, "Tuple", inner) => meta_seq(inner, conforms_meta_type),
        Call::StructVariant(_, 22, "Map", 2, fields) => match &fields[..] {
            [("key", k), ("val", v)] => {
                conforms_meta_type(k)?;
                conforms_meta_type(v)
            }
            _ => Err("Map fields".into()),
        },
        Call::StructVariant(_, 23, "Struct", 2, fields) => match &fields[..] {
            [("name", n), ("data", d)] => {
                meta_str(n)?;
                conforms_meta_data(d)
            }
            _ => Err("Struct fields".into()),
        },
        Call::StructVariant(_, 24, "Enum", 2, fields) => match &fields[..] {
            [("name", n), ("variants", vs)] => {
                meta_str(n)?;
                meta_seq(vs, |v| match v {
                    Call::Struct(_, 2, fs) => match &fs[..] {
                        [("name", n), ("data", d)] => {
                            meta_str(n)?;
                            conforms_meta_data(d)
                        }
                        _ => Err("Variant fields".into()),
                    },
                    _ => Err(format!("expected a Variant struct, got {}", kind(v))),
                })
            }
            _ => Err("Enum fields".into()),
        },
        _ => Err(format!("{} is not part of the schema-of-schemas layout", kind(c))),
    }
}

fn conforms_meta_data(c: &Call) -> Result<(), String> {
    match c {
        Call::UnitVariant(_, 0, "Unit") => Ok(()),
        Call::NewtypeVariant(_, 1, "Newtype", inner) => conforms_meta_type(inner),
        Call::NewtypeVariant(_, 2, "Tuple", inner) => meta_seq(inner, conforms_meta_type),
        Call::NewtypeVariant(_, 3, "Struct", inner) => meta_seq(inner, |f| match f {
            Call::Struct(_, 2, fs) => match &fs[..] {
                [("name", n), ("ty", t)] => {
                    meta_str(n)?;
                    conforms_meta_type(t)
                }
                _ => Err("NamedField fields".into()),
            },
            _ => Err(format!("expected a NamedField struct, got {}", kind(f))),
        }),
        _ => Err(format!("{} is not a Data layout", kind(c))),
    }
}

