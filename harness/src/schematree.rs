//! Neutral schema tree mirroring the 26 DataModelType kinds and 4 Data kinds, with two
//! independent constructions (borrowed `&'static` form and expected owned form), the
//! reference tag stream / FNV-1a key, and single-node mutations. DESIGN.md §3.8.

use postcard_schema::schema::owned::{OwnedData, OwnedDataModelType, OwnedNamedField, OwnedVariant};
use postcard_schema::schema::{Data, DataModelType, NamedField, Variant};
use proptest::prelude::*;
use serde::{Deserialize, Serialize};
use std::any::Any;

#[derive(Clone, Debug, PartialEq, Eq, Hash, Serialize, Deserialize)]
pub enum Tree {
    Bool,
    I8,
    U8,
    I16,
    I32,
    I64,
    I128,
    U16,
    U32,
    U64,
    U128,
    Usize,
    Isize,
    F32,
    F64,
    Char,
    String,
    ByteArray,
    Option(Box<Tree>),
    Unit,
    Seq(Box<Tree>),
    Tuple(Vec<Tree>),
    Map(Box<Tree>, Box<Tree>),
    Struct(String, TData),
    Enum(String, Vec<(String, TData)>),
    Schema,
}

#[derive(Clone, Debug, PartialEq, Eq, Hash, Serialize, Deserialize)]
pub enum TData {
    Unit,
    Newtype(Box<Tree>),
    Tuple(Vec<Tree>),
    Struct(Vec<(String, Tree)>),
}

pub const LEAVES: &[Tree] = &[
    Tree::Bool,
    Tree::I8,
    Tree::U8,
    Tree::I16,
    Tree::I32,
    Tree::I64,
    Tree::I128,
    Tree::U16,
    Tree::U32,
    Tree::U64,
    Tree::U128,
    Tree::Usize,
    Tree::Isize,
    Tree::F32,
    Tree::F64,
    Tree::Char,
    Tree::String,
    Tree::ByteArray,
    Tree::Unit,
    Tree::Schema,
];

impl Tree {
    pub fn kind(&self) -> &'static str {
        match self {
            Tree::Bool => "Bool",
            Tree::I8 => "I8",
            Tree::U8 => "U8",
            Tree::I16 => "I16",
            Tree::I32 => "I32",
            Tree::I64 => "I64",
            Tree::I128 => "I128",
            Tree::U16 => "U16",
            Tree::U32 => "U32",
            Tree::U64 => "U64",
            Tree::U128 => "U128",
            Tree::Usize => "Usize",
            Tree::Isize => "Isize",
            Tree::F32 => "F32",
            Tree::F64 => "F64",
            Tree::Char => "Char",
            Tree::String => "String",
            Tree::ByteArray => "ByteArray",
            Tree::Option(_) => "Option",
            Tree::Unit => "Unit",
            Tree::Seq(_) => "Seq",
            Tree::Tuple(_) => "Tuple",
            Tree::Map(..) => "Map",
            Tree::Struct(..) => "Struct",
            Tree::Enum(..) => "Enum",
            Tree::Schema => "Schema",
        }
    }

    pub fn children(&self) -> Vec<&Tree> {
        match self {
            Tree::Option(t) | Tree::Seq(t) => vec![t],
            Tree::Tuple(ts) => ts.iter().collect(),
            Tree::Map(k, v) => vec![k, v],
            Tree::Struct(_, d) => d.children(),
            Tree::Enum(_, vs) => vs.iter().flat_map(|(_, d)| d.children()).collect(),
            _ => vec![],
        }
    }

    pub fn visit(&self, f: &mut dyn FnMut(&Tree)) {
        f(self);
        for c in self.children() {
            c.visit(f);
        }
    }

    pub fn visit_kinds(&self, f: &mut dyn FnMut(&'static str)) {
        f(self.kind());
        let d = |d: &TData, f: &mut dyn FnMut(&'static str), pre: &str| {
            f(match (pre, d) {
                ("s", TData::Unit) => "Data::Unit(struct)",
                ("s", TData::Newtype(_)) => "Data::Newtype(struct)",
                ("s", TData::Tuple(_)) => "Data::Tuple(struct)",
                ("s", TData::Struct(_)) => "Data::Struct(struct)",
                (_, TData::Unit) => "Data::Unit(variant)",
                (_, TData::Newtype(_)) => "Data::Newtype(variant)",
                (_, TData::Tuple(_)) => "Data::Tuple(variant)",
                (_, TData::Struct(_)) => "Data::Struct(variant)",
            })
        };
        match self {
            Tree::Struct(_, dd) => d(dd, f, "s"),
            Tree::Enum(_, vs) => vs.iter().for_each(|(_, dd)| d(dd, f, "v")),
            _ => {}
        }
        for c in self.children() {
            c.visit_kinds(f);
        }
    }

    pub fn node_count(&self) -> usize {
        1 + self.children().iter().map(|c| c.node_count()).sum::<usize>()
    }

    /// total bytes of all field / variant / type names in the tree
    pub fn name_bytes(&self) -> usize {
        let mut n = 0;
        self.visit(&mut |t| {
            let data = |d: &TData| -> usize {
                match d {
                    TData::Struct(fs) => fs.iter().map(|(k, _)| k.len()).sum(),
                    _ => 0,
                }
            };
            match t {
                Tree::Struct(name, d) => n += name.len() + data(d),
                Tree::Enum(name, vs) => n += name.len() + vs.iter().map(|(k, d)| k.len() + data(d)).sum::<usize>(),
                _ => {}
            }
        });
        n
    }

    pub fn depth(&self) -> usize {
        1 + self.children().iter().map(|c| c.depth()).max().unwrap_or(0)
    }

    pub fn has_named(&self) -> bool {
        let mut n = false;
        self.visit(&mut |t| {
            if matches!(t, Tree::Struct(..) | Tree::Enum(..)) {
                n = true
            }
        });
        n
    }
}

impl TData {
    pub fn children(&self) -> Vec<&Tree> {
        match self {
            TData::Unit => vec![],
            TData::Newtype(t) => vec![t],
            TData::Tuple(ts) => ts.iter().collect(),
            TData::Struct(fs) => fs.iter().map(|(_, t)| t).collect(),
        }
    }
}

// ------------------------------------------------------------------ borrowed construction

/// Owns the allocations behind a `&'static DataModelType` built at run time. The reference
/// handed out is only valid while the holder lives (the harness guarantees that).
pub struct StaticHolder {
    keep: Vec<Box<dyn Any>>,
    /// identical sub-trees share one node (as identical Rust types share one SCHEMA constant)
    shared: std::collections::HashMap<Tree, usize>,
    share: bool,
}

impl StaticHolder {
    pub fn new() -> Self {
        StaticHolder { keep: vec![], shared: Default::default(), share: true }
    }
    pub fn without_sharing() -> Self {
        StaticHolder { keep: vec![], shared: Default::default(), share: false }
    }
    fn one<T: 'static>(&mut self, v: T) -> &'static T {
        let b = Box::new(v);
        let p: *const T = &*b;
        self.keep.push(b);
        unsafe { &*p }
    }
    fn many<T: 'static>(&mut self, v: Vec<T>) -> &'static [T] {
        let b: Box<[T]> = v.into_boxed_slice();
        let p: *const [T] = &*b;
        self.keep.push(Box::new(b));
        unsafe { &*p }
    }
    fn text(&mut self, s: &str) -> &'static str {
        let b: Box<str> = s.into();
        let p: *const str = &*b;
        self.keep.push(Box::new(b));
        unsafe { &*p }
    }

    pub fn build(&mut self, t: &Tree) -> &'static DataModelType {
        if self.share {
            if let Some(p) = self.shared.get(t) {
                return unsafe { &*(*p as *const DataModelType) };
            }
        }
        let r = self.build_fresh(t);
        if self.share {
            self.shared.insert(t.clone(), r as *const DataModelType as usize);
        }
        r
    }

    fn build_fresh(&mut self, t: &Tree) -> &'static DataModelType {
        let v = match t {
            Tree::Bool => DataModelType::Bool,
            Tree::I8 => DataModelType::I8,
            Tree::U8 => DataModelType::U8,
            Tree::I16 => DataModelType::I16,
            Tree::I32 => DataModelType::I32,
            Tree::I64 => DataModelType::I64,
            Tree::I128 => DataModelType::I128,
            Tree::U16 => DataModelType::U16,
            Tree::U32 => DataModelType::U32,
            Tree::U64 => DataModelType::U64,
            Tree::U128 => DataModelType::U128,
            Tree::Usize => DataModelType::Usize,
            Tree::Isize => DataModelType::Isize,
            Tree::F32 => DataModelType::F32,
            Tree::F64 => DataModelType::F64,
            Tree::Char => DataModelType::Char,
            Tree::String => DataModelType::String,
            Tree::ByteArray => DataModelType::ByteArray,
            Tree::Option(i) => DataModelType::Option(self.build(i)),
            Tree::Unit => DataModelType::Unit,
            Tree::Seq(i) => DataModelType::Seq(self.build(i)),
            Tree::Tuple(ts) => {
                let v: Vec<&'static DataModelType> = ts.iter().map(|t| self.build(t)).collect();
                DataModelType::Tuple(self.many(v))
            }
            Tree::Map(k, v) => DataModelType::Map {
                key: self.build(k),
                val: self.build(v),
            },
            Tree::Struct(n, d) => DataModelType::Struct {
                name: self.text(n),
                data: self.data(d),
            },
            Tree::Enum(n, vs) => {
                let v: Vec<&'static Variant> = vs
                    .iter()
                    .map(|(vn, d)| {
                        let var = Variant {
                            name: self.text(vn),
                            data: self.data(d),
                        };
                        self.one(var)
                    })
                    .collect();
                DataModelType::Enum {
                    name: self.text(n),
                    variants: self.many(v),
                }
            }
            Tree::Schema => DataModelType::Schema,
        };
        self.one(v)
    }

    fn data(&mut self, d: &TData) -> Data {
        match d {
            TData::Unit => Data::Unit,
            TData::Newtype(t) => Data::Newtype(self.build(t)),
            TData::Tuple(ts) => {
                let v: Vec<&'static DataModelType> = ts.iter().map(|t| self.build(t)).collect();
                Data::Tuple(self.many(v))
            }
            TData::Struct(fs) => {
                let v: Vec<&'static NamedField> = fs
                    .iter()
                    .map(|(n, t)| {
                        let nf = NamedField {
                            name: self.text(n),
                            ty: self.build(t),
                        };
                        self.one(nf)
                    })
                    .collect();
                Data::Struct(self.many(v))
            }
        }
    }
}

// ------------------------------------------------------------------ expected owned construction

pub fn to_owned_expected(t: &Tree) -> OwnedDataModelType {
    use OwnedDataModelType as O;
    match t {
        Tree::Bool => O::Bool,
        Tree::I8 => O::I8,
        Tree::U8 => O::U8,
        Tree::I16 => O::I16,
        Tree::I32 => O::I32,
        Tree::I64 => O::I64,
        Tree::I128 => O::I128,
        Tree::U16 => O::U16,
        Tree::U32 => O::U32,
        Tree::U64 => O::U64,
        Tree::U128 => O::U128,
        Tree::Usize => O::Usize,
        Tree::Isize => O::Isize,
        Tree::F32 => O::F32,
        Tree::F64 => O::F64,
        Tree::Char => O::Char,
        Tree::String => O::String,
        Tree::ByteArray => O::ByteArray,
        Tree::Option(i) => O::Option(Box::new(to_owned_expected(i))),
        Tree::Unit => O::Unit,
        Tree::Seq(i) => O::Seq(Box::new(to_owned_expected(i))),
        Tree::Tuple(ts) => O::Tuple(ts.iter().map(to_owned_expected).collect()),
        Tree::Map(k, v) => O::Map {
            key: Box::new(to_owned_expected(k)),
            val: Box::new(to_owned_expected(v)),
        },
        Tree::Struct(n, d) => O::Struct {
            name: n.as_str().into(),
            data: owned_data(d),
        },
        Tree::Enum(n, vs) => O::Enum {
            name: n.as_str().into(),
            variants: vs
                .iter()
                .map(|(vn, d)| OwnedVariant {
                    name: vn.as_str().into(),
                    data: owned_data(d),
                })
                .collect(),
        },
        Tree::Schema => O::Schema,
    }
}

fn owned_data(d: &TData) -> OwnedData {
    match d {
        TData::Unit => OwnedData::Unit,
        TData::Newtype(t) => OwnedData::Newtype(Box::new(to_owned_expected(t))),
        TData::Tuple(ts) => OwnedData::Tuple(ts.iter().map(to_owned_expected).collect()),
        TData::Struct(fs) => OwnedData::Struct(
            fs.iter()
                .map(|(n, t)| OwnedNamedField {
                    name: n.as_str().into(),
                    ty: to_owned_expected(t),
                })
                .collect(),
        ),
    }
}

/// Convert an owned schema back to the neutral tree (for corpus schemas).
pub fn from_owned(o: &OwnedDataModelType) -> Tree {
    use OwnedDataModelType as O;
    let data = |d: &OwnedData| match d {
        OwnedData::Unit => TData::Unit,
        OwnedData::Newtype(t) => TData::Newtype(Box::new(from_owned(t))),
        OwnedData::Tuple(ts) => TData::Tuple(ts.iter().map(from_owned).collect()),
        OwnedData::Struct(fs) => TData::Struct(fs.iter().map(|f| (f.name.to_string(), from_owned(&f.ty))).collect()),
    };
    match o {
        O::Bool => Tree::Bool,
        O::I8 => Tree::I8,
        O::U8 => Tree::U8,
        O::I16 => Tree::I16,
        O::I32 => Tree::I32,
        O::I64 => Tree::I64,
        O::I128 => Tree::I128,
        O::U16 => Tree::U16,
        O::U32 => Tree::U32,
        O::U64 => Tree::U64,
        O::U128 => Tree::U128,
        O::Usize => Tree::Usize,
        O::Isize => Tree::Isize,
        O::F32 => Tree::F32,
        O::F64 => Tree::F64,
        O::Char => Tree::Char,
        O::String => Tree::String,
        O::ByteArray => Tree::ByteArray,
        O::Option(t) => Tree::Option(Box::new(from_owned(t))),
        O::Unit => Tree::Unit,
        O::Seq(t) => Tree::Seq(Box::new(from_owned(t))),
        O::Tuple(ts) => Tree::Tuple(ts.iter().map(from_owned).collect()),
        O::Map { key, val } => Tree::Map(Box::new(from_owned(key)), Box::new(from_owned(val))),
        O::Struct { name, data: d } => Tree::Struct(name.to_string(), data(d)),
        O::Enum { name, variants } => Tree::Enum(name.to_string(), variants.iter().map(|v| (v.name.to_string(), data(&v.data))).collect()),
        O::Schema => Tree::Schema,
    }
}

// ------------------------------------------------------------------ reference key stream

/// The documented tag-and-name stream (34 tags; struct/enum type names are not part of it).
pub fn ref_stream(t: &Tree, out: &mut Vec<u8>) {
    let tag = |t: &Tree| -> u8 {
        match t {
            Tree::Bool => 0x11,
            Tree::I8 => 0xC5,
            Tree::U8 => 0x3D,
            Tree::I16 => 0x1D,
            Tree::I32 => 0x0D,
            Tree::I64 => 0x0B,
            Tree::I128 => 0x02,
            Tree::U16 => 0x83,
            Tree::U32 => 0xD3,
            Tree::U64 => 0x13,
            Tree::U128 => 0x8B,
            Tree::Usize => 0x6B,
            Tree::Isize => 0xAD,
            Tree::F32 => 0xEF,
            Tree::F64 => 0x71,
            Tree::Char => 0xC1,
            Tree::String => 0x25,
            Tree::ByteArray => 0x65,
            Tree::Option(_) => 0x6D,
            Tree::Unit => 0x47,
            Tree::Seq(_) => 0x03,
            Tree::Tuple(_) => 0xA7,
            Tree::Map(..) => 0x4F,
            Tree::Enum(..) => 0xE9,
            Tree::Schema => 0xE5,
            Tree::Struct(..) => unreachable!(),
        }
    };
    match t {
        Tree::Struct(_, d) => match d {
            TData::Unit => out.push(0xBF),
            TData::Newtype(i) => {
                out.push(0x9D);
                ref_stream(i, out)
            }
            TData::Tuple(ts) => {
                out.push(0x05);
                ts.iter().for_each(|t| ref_stream(t, out))
            }
            TData::Struct(fs) => {
                out.push(0x7F);
                for (n, t) in fs {
                    out.extend_from_slice(n.as_bytes());
                    ref_stream(t, out);
                }
            }
        },
        Tree::Enum(_, vs) => {
            out.push(tag(t));
            for (n, d) in vs {
                out.extend_from_slice(n.as_bytes());
                match d {
                    TData::Unit => out.push(0xB5),
                    TData::Newtype(i) => {
                        out.push(0xDF);
                        ref_stream(i, out)
                    }
                    TData::Tuple(ts) => {
                        out.push(0xC7);
                        ts.iter().for_each(|t| ref_stream(t, out))
                    }
                    TData::Struct(fs) => {
                        out.push(0x67);
                        for (n, t) in fs {
                            out.extend_from_slice(n.as_bytes());
                            ref_stream(t, out);
                        }
                    }
                }
            }
        }
        _ => {
            out.push(tag(t));
            for c in t.children() {
                ref_stream(c, out);
            }
        }
    }
}

/// 64-bit FNV-1a, little-endian digest.
pub fn fnv1a64(bytes: &[u8]) -> [u8; 8] {
    let mut h: u64 = 0xcbf2_9ce4_8422_2325;
    for b in bytes {
        h ^= *b as u64;
        h = h.wrapping_mul(0x0000_0100_0000_01b3);
    }
    h.to_le_bytes()
}

pub fn ref_key(path: &str, t: &Tree) -> [u8; 8] {
    let mut s = path.as_bytes().to_vec();
    ref_stream(t, &mut s);
    fnv1a64(&s)
}

pub fn self_test() -> Result<(), String> {
    // FNV-1a test vectors (Noll): "" -> cbf29ce484222325, "a" -> af63dc4c8601ec8c, "foobar" -> 85944171f73967e8
    for (s, h) in [("", 0xcbf29ce484222325u64), ("a", 0xaf63dc4c8601ec8c), ("foobar", 0x85944171f73967e8)] {
        if fnv1a64(s.as_bytes()) != h.to_le_bytes() {
            return Err(format!("fnv1a64({:?})", s));
        }
    }
    Ok(())
}

// ------------------------------------------------------------------ mutations

#[derive(Clone, Debug, PartialEq, Eq)]
pub enum MutClass {
    /// must leave the key unchanged
    TypeRename,
    /// must change the key
    FieldRename,
    VariantRename,
    FieldOrder,
    VariantOrder,
    KindChange,
}

/// Every single-node edit of `t` (bounded to `cap` results, spread over the tree).
pub fn mutations(t: &Tree, cap: usize) -> Vec<(MutClass, Tree)> {
    let mut out = vec![];
    let n = t.node_count();
    for idx in 0..n {
        if out.len() >= cap {
            break;
        }
        let mut k = idx;
        mutate_at(t, &mut k, &mut |orig| node_mutations(orig), &mut out, t);
    }
    out
}

// apply `f` at preorder index *k, producing whole-tree variants
fn mutate_at(root: &Tree, k: &mut usize, f: &mut dyn FnMut(&Tree) -> Vec<(MutClass, Tree)>, out: &mut Vec<(MutClass, Tree)>, whole: &Tree) {
    let _ = whole;
    // collect preorder paths
    fn paths(t: &Tree, cur: &mut Vec<usize>, acc: &mut Vec<Vec<usize>>) {
        acc.push(cur.clone());
        let n = t.children().len();
        for i in 0..n {
            cur.push(i);
            paths(t.children()[i], cur, acc);
            cur.pop();
        }
    }
    let mut acc = vec![];
    paths(root, &mut vec![], &mut acc);
    let path = &acc[*k];
    let node = get(root, path);
    for (c, m) in f(node) {
        out.push((c, replace(root, path, &m)));
    }
}

fn get<'a>(t: &'a Tree, path: &[usize]) -> &'a Tree {
    match path.split_first() {
        None => t,
        Some((i, rest)) => get(t.children()[*i], rest),
    }
}

fn replace(t: &Tree, path: &[usize], new: &Tree) -> Tree {
    match path.split_first() {
        None => new.clone(),
        Some((i, rest)) => {
            let mut idx = 0usize;
            map_children(t, &mut |c| {
                let r = if idx == *i { replace(c, rest, new) } else { c.clone() };
                idx += 1;
                r
            })
        }
    }
}

fn map_children(t: &Tree, f: &mut dyn FnMut(&Tree) -> Tree) -> Tree {
    let mut md = |d: &TData, f: &mut dyn FnMut(&Tree) -> Tree| match d {
        TData::Unit => TData::Unit,
        TData::Newtype(t) => TData::Newtype(Box::new(f(t))),
        TData::Tuple(ts) => TData::Tuple(ts.iter().map(|t| f(t)).collect()),
        TData::Struct(fs) => TData::Struct(fs.iter().map(|(n, t)| (n.clone(), f(t))).collect()),
    };
    match t {
        Tree::Option(i) => Tree::Option(Box::new(f(i))),
        Tree::Seq(i) => Tree::Seq(Box::new(f(i))),
        Tree::Tuple(ts) => Tree::Tuple(ts.iter().map(|t| f(t)).collect()),
        Tree::Map(k, v) => {
            let k2 = f(k);
            let v2 = f(v);
            Tree::Map(Box::new(k2), Box::new(v2))
        }
        Tree::Struct(n, d) => Tree::Struct(n.clone(), md(d, f)),
        Tree::Enum(n, vs) => Tree::Enum(n.clone(), vs.iter().map(|(vn, d)| (vn.clone(), md(d, f))).collect()),
        other => other.clone(),
    }
}

fn other_name(n: &str) -> String {
    if n == "zz" {
        "zy".to_string()
    } else {
        format!("{}z", n)
    }
}

fn node_mutations(t: &Tree) -> Vec<(MutClass, Tree)> {
    let mut out = vec![];
    // kind change: to a different leaf kind
    let repl = if *t == Tree::U8 { Tree::I8 } else { Tree::U8 };
    out.push((MutClass::KindChange, repl));
    if let Some(pos) = LEAVES.iter().position(|l| l == t) {
        out.push((MutClass::KindChange, LEAVES[(pos + 1) % LEAVES.len()].clone()));
    }
    let data_muts = |d: &TData| -> Vec<(MutClass, TData)> {
        let mut o = vec![];
        if let TData::Struct(fs) = d {
            for i in 0..fs.len() {
                let mut f2 = fs.clone();
                f2[i].0 = other_name(&f2[i].0);
                o.push((MutClass::FieldRename, TData::Struct(f2)));
                if i + 1 < fs.len() {
                    let mut f3 = fs.clone();
                    f3.swap(i, i + 1);
                    o.push((MutClass::FieldOrder, TData::Struct(f3)));
                }
            }
        }
        if let TData::Tuple(ts) = d {
            for i in 0..ts.len().saturating_sub(1) {
                let mut t3 = ts.clone();
                t3.swap(i, i + 1);
                o.push((MutClass::FieldOrder, TData::Tuple(t3)));
            }
        }
        o
    };
    match t {
        Tree::Struct(n, d) => {
            out.push((MutClass::TypeRename, Tree::Struct(other_name(n), d.clone())));
            for (c, d2) in data_muts(d) {
                out.push((c, Tree::Struct(n.clone(), d2)));
            }
        }
        Tree::Enum(n, vs) => {
            out.push((MutClass::TypeRename, Tree::Enum(other_name(n), vs.clone())));
            for i in 0..vs.len() {
                let mut v2 = vs.clone();
                v2[i].0 = other_name(&v2[i].0);
                out.push((MutClass::VariantRename, Tree::Enum(n.clone(), v2)));
                if i + 1 < vs.len() {
                    let mut v3 = vs.clone();
                    v3.swap(i, i + 1);
                    out.push((MutClass::VariantOrder, Tree::Enum(n.clone(), v3)));
                }
                for (c, d2) in data_muts(&vs[i].1) {
                    let mut v4 = vs.clone();
                    v4[i].1 = d2;
                    out.push((c, Tree::Enum(n.clone(), v4)));
                }
            }
        }
        Tree::Tuple(ts) => {
            for i in 0..ts.len().saturating_sub(1) {
                let mut t3 = ts.clone();
                t3.swap(i, i + 1);
                out.push((MutClass::FieldOrder, Tree::Tuple(t3)));
            }
        }
        Tree::Map(k, v) => out.push((MutClass::FieldOrder, Tree::Map(v.clone(), k.clone()))),
        _ => {}
    }
    out
}

// ------------------------------------------------------------------ generator

const TREE_NAMES_SPECIAL: &[&str] = &["it's", "C:\\temp", "tab\there", "quo\"ted", "new\nline", "a\u{7f}b", "Kb", "KB", "kb", "Ω", "größe", "温度", "r#type", "r#", "r#r#in", "type", "a/", "/", " lead", "trail "];
const TREE_NAMES: &[&str] = &[
    "", "a", "b", "x", "y", "k", "q", "e", "m", "G", "O", "g", "qq", "qqq", "id", "len", "data", "Point", "Result<T, E>", "Range<T>",
    "Foo", "Bar", "Ok", "Err", "héllo", "名前", "naïve_field", "with space", "A", "B", "C", "zz",
];

pub fn arb_tree_name() -> BoxedStrategy<String> {
    prop_oneof![
        240 => any::<u16>().prop_map(|r| TREE_NAMES[crate::gen::pick_idx(r, TREE_NAMES.len())].to_string()),
        12 => (any::<u8>(), 100usize..300).prop_map(|(c, n)| ((b'a' + c % 26) as char).to_string().repeat(n)),
        24 => any::<u16>().prop_map(|r| TREE_NAMES_SPECIAL[crate::gen::pick_idx(r, TREE_NAMES_SPECIAL.len())].to_string()),
        // long names mixing one-, two-, three- and four-byte characters at arbitrary offsets
        12 => proptest::collection::vec(prop_oneof![4 => Just('x'), 1 => Just('é'), 1 => Just('名'), 1 => Just('\u{1F600}')], 20..200)
            .prop_map(|cs| cs.into_iter().collect::<String>()),
        24 => "[a-zA-Z_][a-zA-Z0-9_]{0,8}".prop_map(|s| s),
        // names whose length prefix needs three varint bytes (rare: they are big)
        1 => (any::<u16>(), any::<u8>()).prop_map(|(r, c)| {
            const L: [usize; 9] = [16383, 16384, 16385, 32767, 32768, 40000, 49152, 65536, 70000];
            ((b'a' + c % 26) as char).to_string().repeat(L[crate::gen::pick_idx(r, L.len())])
        }),
    ]
    .boxed()
}

fn arb_tdata(inner: BoxedStrategy<Tree>, width: usize) -> BoxedStrategy<TData> {
    prop_oneof![
        2 => Just(TData::Unit),
        2 => inner.clone().prop_map(|t| TData::Newtype(Box::new(t))),
        2 => proptest::collection::vec(inner.clone(), 0..=width).prop_map(TData::Tuple),
        3 => proptest::collection::vec((arb_tree_name(), inner), 0..=width).prop_map(TData::Struct),
    ]
    .boxed()
}

#[derive(Clone, Copy, Debug)]
pub struct TreeCfg {
    pub depth: u32,
    pub width: usize,
    /// include Usize / Isize / Schema leaves
    pub exotic: bool,
}

impl Default for TreeCfg {
    fn default() -> Self {
        TreeCfg {
            depth: 5,
            width: 5,
            exotic: true,
        }
    }
}

pub fn arb_tree(cfg: TreeCfg) -> BoxedStrategy<Tree> {
    let leaves: Vec<Tree> = LEAVES
        .iter()
        .filter(|l| cfg.exotic || !matches!(l, Tree::Usize | Tree::Isize | Tree::Schema))
        .cloned()
        .collect();
    let nl = leaves.len();
    let leaf = any::<u16>().prop_map(move |r| leaves[crate::gen::pick_idx(r, nl)].clone()).boxed();
    let width = cfg.width;
    leaf.prop_recursive(cfg.depth, 64, width as u32, move |inner| {
        prop_oneof![
            2 => inner.clone().prop_map(|t| Tree::Option(Box::new(t))),
            2 => inner.clone().prop_map(|t| Tree::Seq(Box::new(t))),
            3 => proptest::collection::vec(inner.clone(), 0..=width).prop_map(Tree::Tuple),
            1 => proptest::collection::vec(inner.clone(), 30..=40).prop_map(Tree::Tuple),
            1 => (inner.clone(), inner.clone()).prop_map(|(k, v)| Tree::Map(Box::new(k), Box::new(v))),
            // string-keyed maps, the key optionally behind 1-3 newtype wrappers
            2 => (0usize..4, arb_tree_name(), inner.clone()).prop_map(|(wraps, n, v)| {
                let mut k = Tree::String;
                for _ in 0..wraps {
                    k = Tree::Struct(n.clone(), TData::Newtype(Box::new(k)));
                }
                Tree::Map(Box::new(k), Box::new(v))
            }),
            5 => (arb_tree_name(), arb_tdata(inner.clone(), width)).prop_map(|(n, d)| Tree::Struct(n, d)),
            5 => (arb_tree_name(), proptest::collection::vec((arb_tree_name(), arb_tdata(inner.clone(), width)), 0..=width))
                .prop_map(|(n, vs)| Tree::Enum(n, vs)),
        ]
    })
    .boxed()
}

/// deep chains (depth up to `k`) and wide nodes (fan-out up to `w`)
pub fn arb_deep_or_wide(k: usize, w: usize) -> BoxedStrategy<Tree> {
    let leaf = any::<u16>().prop_map(|r| LEAVES[crate::gen::pick_idx(r, LEAVES.len())].clone());
    prop_oneof![
        (leaf.clone(), 1..=k, 0..4u8).prop_map(|(l, k, kind)| {
            let mut t = l;
            for i in 0..k {
                t = match (kind + i as u8) % 4 {
                    0 => Tree::Option(Box::new(t)),
                    1 => Tree::Seq(Box::new(t)),
                    2 => Tree::Struct("N".into(), TData::Newtype(Box::new(t))),
                    _ => Tree::Enum("E".into(), vec![("V".into(), TData::Newtype(Box::new(t)))]),
                };
            }
            t
        }),
        (proptest::collection::vec((arb_tree_name(), leaf), 0..=w), 0..6u8).prop_map(|(fs, kind)| match kind {
            0 => Tree::Struct("Wide".into(), TData::Struct(fs)),
            1 => Tree::Enum("WideE".into(), fs.into_iter().map(|(n, t)| (n, TData::Newtype(Box::new(t)))).collect()),
            2 => Tree::Tuple(fs.into_iter().map(|(_, t)| t).collect()),
            // tuple structs / tuple variants / struct variants wider than any plain tuple
            3 => Tree::Struct("WideT".into(), TData::Tuple(fs.into_iter().map(|(_, t)| t).collect())),
            4 => Tree::Enum("WideV".into(), vec![("Unit".to_string(), TData::Unit), ("Tup".to_string(), TData::Tuple(fs.into_iter().map(|(_, t)| t).collect()))]),
            _ => Tree::Enum("WideS".into(), vec![("Rec".to_string(), TData::Struct(fs)), ("Unit".to_string(), TData::Unit)]),
        }),
    ]
    .boxed()
}

/// A tree containing two subtrees of identical shape whose struct/enum type names differ
/// (same wire format and same key, different types).
pub fn arb_same_shape_pair(cfg: TreeCfg) -> BoxedStrategy<Tree> {
    fn rename(t: &Tree, suffix: &str) -> Tree {
        let d = |d: &TData| match d {
            TData::Unit => TData::Unit,
            TData::Newtype(i) => TData::Newtype(Box::new(rename(i, suffix))),
            TData::Tuple(ts) => TData::Tuple(ts.iter().map(|t| rename(t, suffix)).collect()),
            TData::Struct(fs) => TData::Struct(fs.iter().map(|(n, t)| (n.clone(), rename(t, suffix))).collect()),
        };
        match t {
            Tree::Option(i) => Tree::Option(Box::new(rename(i, suffix))),
            Tree::Seq(i) => Tree::Seq(Box::new(rename(i, suffix))),
            Tree::Tuple(ts) => Tree::Tuple(ts.iter().map(|t| rename(t, suffix)).collect()),
            Tree::Map(k, v) => Tree::Map(Box::new(rename(k, suffix)), Box::new(rename(v, suffix))),
            Tree::Struct(n, dd) => Tree::Struct(format!("{}{}", n, suffix), d(dd)),
            Tree::Enum(n, vs) => Tree::Enum(format!("{}{}", n, suffix), vs.iter().map(|(vn, dd)| (vn.clone(), d(dd))).collect()),
            other => other.clone(),
        }
    }
    (arb_tree(cfg), arb_tree(cfg), 0..4u8)
        .prop_map(|(a, filler, form)| {
            let b = rename(&a, "2");
            match form {
                0 => Tree::Tuple(vec![a, b]),
                1 => Tree::Struct("Pair".into(), TData::Struct(vec![("first".into(), a), ("gap".into(), filler), ("second".into(), b)])),
                2 => Tree::Enum("Either".into(), vec![("L".into(), TData::Newtype(Box::new(a))), ("R".into(), TData::Newtype(Box::new(b)))]),
                _ => Tree::Map(Box::new(Tree::String), Box::new(Tree::Tuple(vec![filler, a, Tree::Seq(Box::new(b))]))),
            }
        })
        .boxed()
}

/// A long run of one repeated element type followed by types that occur nowhere before
/// (`struct Frame { payload: [u8; 256], crc: Crc32, kind: Kind }`).
pub fn arb_array_then_types(cfg: TreeCfg) -> BoxedStrategy<Tree> {
    (100usize..300, 0..LEAVES.len(), proptest::collection::vec((arb_tree_name(), arb_tree(cfg)), 1..4), 0..3u8)
        .prop_map(|(n, li, rest, form)| {
            let arr = Tree::Tuple(vec![LEAVES[li].clone(); n]);
            match form {
                0 => {
                    let mut fs = vec![("payload".to_string(), arr)];
                    fs.extend(rest);
                    Tree::Struct("Frame".into(), TData::Struct(fs))
                }
                1 => {
                    let mut ts = vec![arr];
                    ts.extend(rest.into_iter().map(|(_, t)| t));
                    Tree::Tuple(ts)
                }
                _ => {
                    // the repeats spread over several arrays of different element types
                    let mut ts: Vec<Tree> = (0..3).map(|k| Tree::Tuple(vec![LEAVES[(li + k) % LEAVES.len()].clone(); n / 2])).collect();
                    ts.extend(rest.into_iter().map(|(_, t)| t));
                    Tree::Struct("Multi".into(), TData::Tuple(ts))
                }
            }
        })
        .boxed()
}

/// Chains of enum layers through tuple / struct variants (each layer has a payload beside the
/// next layer), the shape that recursion-depth accounting gets wrong first.
pub fn arb_deep_variant_chain(max_depth: usize) -> BoxedStrategy<Tree> {
    (1..=max_depth, any::<bool>(), 0..4usize)
        .prop_map(|(d, as_struct, li)| {
            let mut t = LEAVES[li].clone();
            for i in 0..d {
                let data = if as_struct ^ (i % 7 == 0) {
                    TData::Struct(vec![("next".to_string(), t), ("n".to_string(), Tree::U8)])
                } else {
                    TData::Tuple(vec![t, Tree::Bool])
                };
                t = Tree::Enum("L".into(), vec![("Leaf".into(), TData::Unit), ("Node".into(), data)]);
            }
            t
        })
        .boxed()
}

/// Chains of up to `max_depth` wrappers of every container kind (sequence, option, newtype / tuple / named struct,
/// enum with newtype / tuple / struct variants, string-keyed map, tuple) around a leaf; the wrapper kinds along one
/// chain are drawn independently, so a single enum layer may sit under a hundred sequences.
pub fn arb_deep_mixed_chain(max_depth: usize) -> BoxedStrategy<Tree> {
    (proptest::collection::vec(0..10u8, 1..=max_depth), 0..4usize, prop_oneof![Just(None), (0..10u8).prop_map(Some)])
        .prop_map(|(kinds, li, uniform)| {
            let mut t = LEAVES[li].clone();
            for k in kinds {
                let k = uniform.unwrap_or(k);
                t = match k {
                    0 => Tree::Seq(Box::new(t)),
                    1 => Tree::Option(Box::new(Tree::Tuple(vec![t, Tree::Bool]))),
                    2 => Tree::Struct("W".into(), TData::Newtype(Box::new(t))),
                    3 => Tree::Struct("T".into(), TData::Tuple(vec![Tree::U8, t])),
                    4 => Tree::Struct("S".into(), TData::Struct(vec![("tag".to_string(), Tree::Bool), ("next".to_string(), t)])),
                    5 => Tree::Enum("En".into(), vec![("Nil".into(), TData::Unit), ("Wrap".into(), TData::Newtype(Box::new(t)))]),
                    6 => Tree::Enum("List".into(), vec![("Nil".into(), TData::Unit), ("Cons".into(), TData::Tuple(vec![Tree::U8, t]))]),
                    7 => Tree::Enum(
                        "Tr".into(),
                        vec![("Leaf".into(), TData::Unit), ("Node".into(), TData::Struct(vec![("tag".to_string(), Tree::Bool), ("next".to_string(), t)]))],
                    ),
                    8 => Tree::Map(Box::new(Tree::String), Box::new(t)),
                    _ => Tree::Tuple(vec![t, Tree::U16]),
                };
            }
            t
        })
        .boxed()
}

/// Tuples (and struct / variant field lists) in which directly adjacent elements are structs or enums of the *same
/// name* but different bodies (`Tagged<u8>` next to `Tagged<String>`, `v1::Config` next to `v2::Config`).
pub fn arb_same_name_neighbours() -> BoxedStrategy<Tree> {
    let small = arb_tree(TreeCfg { depth: 2, width: 3, exotic: true });
    (arb_tree_name(), small.clone(), small.clone(), small, 0..6u8, proptest::collection::vec(0..4usize, 0..3))
        .prop_map(|(name, a, b, c, kind, pre)| {
            let mk = |body: Tree, k: u8| -> Tree {
                match k % 3 {
                    0 => Tree::Struct(name.clone(), TData::Newtype(Box::new(body))),
                    1 => Tree::Struct(name.clone(), TData::Struct(vec![("value".to_string(), body), ("n".to_string(), Tree::U8)])),
                    _ => Tree::Enum(name.clone(), vec![("Ok".to_string(), TData::Newtype(Box::new(body))), ("Err".to_string(), TData::Unit)]),
                }
            };
            let (x, y, z) = (mk(a, kind), mk(b, kind), mk(c, kind + 1));
            let mut items: Vec<Tree> = pre.into_iter().map(|i| LEAVES[i].clone()).collect();
            items.extend([x, y, z]);
            match kind {
                0 | 1 => Tree::Tuple(items),
                2 => Tree::Struct("Holder".into(), TData::Tuple(items)),
                3 => Tree::Struct("Holder".into(), TData::Struct(items.into_iter().enumerate().map(|(i, t)| (format!("f{}", i), t)).collect())),
                4 => Tree::Enum("HolderE".into(), vec![("V".to_string(), TData::Tuple(items))]),
                _ => Tree::Seq(Box::new(Tree::Tuple(items))),
            }
        })
        .boxed()
}
