//! Input families derived from a valid encoding: prefixes, single-byte corruptions, varint
//! re-paddings, adversarial length prefixes. Used by C03, C04, C07, C10, C18.

use crate::refcodec::Encoded;

/// Positions to corrupt: all of them for short inputs, a spread sample for longer ones.
pub fn positions(len: usize, cap: usize) -> Vec<usize> {
    if len <= cap {
        (0..len).collect()
    } else {
        let mut v: Vec<usize> = (0..cap / 2).collect();
        let rest = cap - v.len();
        for i in 0..rest {
            v.push(cap / 2 + (len - cap / 2 - 1) * i / (rest - 1).max(1));
        }
        v.sort();
        v.dedup();
        v
    }
}

/// Replacement bytes for position `i` of `orig`: every single-bit flip and 00/7F/80/FF.
pub fn corruptions_of(b: u8) -> Vec<u8> {
    let mut v: Vec<u8> = (0..8).map(|k| b ^ (1 << k)).collect();
    for x in [0x00u8, 0x7F, 0x80, 0xFF] {
        if x != b && !v.contains(&x) {
            v.push(x);
        }
    }
    v
}

/// Re-pad varint number `idx` of `e` to exactly `total` bytes (total >= its length):
/// set the continuation flag on its last byte, add 0x80 bytes, end with 0x00.
pub fn repad(e: &Encoded, idx: usize, total: usize) -> Vec<u8> {
    let (off, len, _bits) = e.varint_spans[idx];
    assert!(total > len);
    let mut out = e.bytes[..off + len].to_vec();
    let last = out.len() - 1;
    out[last] |= 0x80;
    for _ in 0..(total - len - 1) {
        out.push(0x80);
    }
    out.push(0x00);
    out.extend_from_slice(&e.bytes[off + len..]);
    out
}

/// Replace varint number `idx` by the canonical varint of `v` (any width).
pub fn replace_varint(e: &Encoded, idx: usize, mut v: u128) -> Vec<u8> {
    let (off, len, _bits) = e.varint_spans[idx];
    let mut out = e.bytes[..off].to_vec();
    loop {
        let g = (v % 128) as u8;
        v /= 128;
        if v == 0 {
            out.push(g);
            break;
        }
        out.push(g | 0x80);
    }
    out.extend_from_slice(&e.bytes[off + len..]);
    out
}

/// Largest value of the final byte of a maximal-length varint for a `bits`-bit type, derived
/// from the spec's rule "contain no data that exceeds the maximum value of the integer type".
pub fn max_last(bits: u32) -> u8 {
    let full = (bits / 7) * 7;
    let rem = bits - full;
    if rem == 0 {
        0x7F
    } else {
        ((1u16 << rem) - 1) as u8
    }
}

pub fn max_len(bits: u32) -> usize {
    ((bits + 6) / 7) as usize
}
