#!/bin/sh
# Build all libFuzzer targets (ASan, debug assertions) offline.
set -e
cd "$(dirname "$0")"
export CARGO_NET_OFFLINE=true
[ -f Cargo.lock ] || cp ../harness/Cargo.lock Cargo.lock
cargo +nightly fuzz build --fuzz-dir . -O -a 2>&1 | tail -3
