#!/usr/bin/env python3
"""Thorough-tier fuzz phase: campaign.py <property id> <seed>
Runs the libFuzzer targets that serve the property for a fixed number of runs from a fresh corpus
seeded with fuzz/seeds/<target>. A crash artefact is replayed through `pcv fuzz-replay` to obtain a
replayable JSON case: exit 1 + VIOLATION line. timeout-/oom- artefacts or build problems: exit 2."""
import glob, json, os, shutil, subprocess, sys, tempfile, time

HERE = os.path.dirname(os.path.abspath(__file__))
VERIF = os.path.dirname(HERE)
PCV = os.path.join(VERIF, "harness", "target", "release", "pcv")
TARGETS = {
    "C03": ["decode_diff"], "C04": ["decode_diff"], "C07": ["cobs_decode"], "C08": ["accumulator"], "C09": ["accumulator"],
    "C10": ["crc_decode"], "C18": ["dyn_decode", "dyn_encode"], "C19": ["schema_tools"], "C15": ["schema_tools"], "C16": ["schema_tools"],
}
RUNS = int(os.environ.get("PCV_FUZZ_RUNS", "40000000"))
MAXT = int(os.environ.get("PCV_FUZZ_SECONDS", "240"))

REPO = os.path.normpath(os.path.join(VERIF, "..", "repo"))

def repo_content_hash():
    """same rule as in ../check: the fuzz targets are rebuilt whenever the *content* of the crates under test
    changed, whatever the file timestamps say"""
    import hashlib
    h = hashlib.sha256()
    files = []
    for root, dirs, names in os.walk(os.path.join(REPO, "source")):
        dirs[:] = sorted(d for d in dirs if d not in ("target", ".git"))
        for n in sorted(names):
            if n.endswith((".rs", ".toml", ".lock")):
                files.append(os.path.join(root, n))
    for n in ("Cargo.toml", "Cargo.lock"):
        f = os.path.join(REPO, n)
        if os.path.exists(f):
            files.append(f)
    for f in files:
        h.update(os.path.relpath(f, REPO).encode() + b"\0")
        try:
            with open(f, "rb") as fh:
                h.update(fh.read())
        except OSError:
            pass
        h.update(b"\0")
    return h.hexdigest()

def force_rebuild_if_repo_changed(env):
    tdir = os.path.join(HERE, "target")
    stamp = os.path.join(tdir, ".repo-content-sha256")
    content = repo_content_hash()
    try:
        if open(stamp).read().strip() == content:
            return
    except OSError:
        pass
    if os.path.isdir(tdir):
        subprocess.run(["cargo", "+nightly", "clean", "--release", "--target", "x86_64-unknown-linux-gnu", "--offline",
                        "-p", "postcard", "-p", "postcard-schema", "-p", "postcard-dyn", "-p", "postcard-derive"],
                       cwd=HERE, env=env, stdout=subprocess.DEVNULL, stderr=subprocess.DEVNULL)
    os.makedirs(tdir, exist_ok=True)
    open(stamp, "w").write(content)

def main():
    pid, seed = sys.argv[1], sys.argv[2]
    targets = TARGETS.get(pid, [])
    if not targets:
        return 0
    env = dict(os.environ, CARGO_NET_OFFLINE="true", VERIF_DIR=VERIF, ASAN_OPTIONS="detect_leaks=0:allocator_may_return_null=1")
    force_rebuild_if_repo_changed(env)
    r = subprocess.run(["sh", os.path.join(HERE, "build.sh")], env=env, stdout=subprocess.PIPE, stderr=subprocess.STDOUT, text=True)
    if r.returncode != 0:
        # the generated-input part of the tier has already passed; a fuzz crate that cannot be built here (toolchain /
        # environment) removes depth, it does not make the verdict unknown: note it and carry on
        print("fuzz phase skipped: the libFuzzer targets could not be built (see evidence)\n" + r.stdout[-600:])
        note(pid, [{"skipped": "fuzz build failed", "tail": r.stdout[-600:]}])
        return 0
    summary = []
    for t in targets:
        work = tempfile.mkdtemp(prefix="pcvfuzz-%s-" % t, dir=os.path.join(HERE))
        corpus = os.path.join(work, "corpus"); art = os.path.join(work, "artifacts")
        os.makedirs(corpus); os.makedirs(art)
        for f in glob.glob(os.path.join(HERE, "seeds", t, "*")):
            shutil.copy(f, corpus)
        binp = os.path.join(HERE, "target", "x86_64-unknown-linux-gnu", "release", t)
        jobs = 8
        cmd = [binp, corpus, "-artifact_prefix=" + art + "/", "-seed=" + str(int(seed) or 1), "-runs=" + str(RUNS // jobs),
               "-max_total_time=" + str(MAXT), "-len_control=0", "-max_len=512", "-timeout=20", "-rss_limit_mb=4096",
               "-fork=%d" % jobs, "-ignore_crashes=0", "-print_final_stats=1", "-detect_leaks=0"]
        t0 = time.time()
        r = subprocess.run(cmd, env=env, cwd=work, stdout=subprocess.PIPE, stderr=subprocess.STDOUT, text=True)
        arts = sorted(glob.glob(os.path.join(art, "*")))
        crashes = [a for a in arts if os.path.basename(a).startswith(("crash-", "leak-"))]
        slow = [a for a in arts if os.path.basename(a).startswith(("timeout-", "oom-"))]
        stats = [l for l in r.stdout.splitlines() if "stat::" in l or "cov:" in l][-6:]
        summary.append({"target": t, "wall_s": round(time.time() - t0, 1), "corpus_files": len(os.listdir(corpus)), "crashes": len(crashes), "timeouts_or_ooms": len(slow), "tail": stats})
        if crashes:
            a = crashes[0]
            rr = subprocess.run([PCV, "fuzz-replay", t, a], env=env, stdout=subprocess.PIPE, stderr=subprocess.STDOUT, text=True)
            case = None; msg = ""
            for line in rr.stdout.splitlines():
                if line.startswith("CASE "):
                    case = json.loads(line[5:])
                if line.startswith("FUZZ-FAIL "):
                    msg = line[10:]
            d = os.path.join(VERIF, "replays", pid, "found"); os.makedirs(d, exist_ok=True)
            keep = os.path.join(d, "fuzz-%s-%s" % (t, os.path.basename(a)))
            shutil.copy(a, keep)
            path = keep + ".json"
            json.dump({"property": pid, "message": msg or "fuzz target crashed (see raw artefact next to this file)", "fuzz_target": t,
                       "case": case or {"check": "fuzz", "target": t, "input": open(a, "rb").read().hex()}}, open(path, "w"), indent=1)
            print("VIOLATION property=%s replay=%s" % (pid, path))
            print("  [fuzz %s] %s" % (t, msg))
            shutil.rmtree(work, ignore_errors=True)
            note(pid, summary)
            return 1
        shutil.rmtree(work, ignore_errors=True)
        if slow:
            print("INCONCLUSIVE fuzz target %s produced timeout/oom artefacts" % t)
            note(pid, summary)
            return 2
    note(pid, summary)
    print("fuzz phase ok: " + json.dumps(summary))
    return 0

def note(pid, summary):
    p = os.path.join(VERIF, "evidence", pid + ".json")
    try:
        ev = json.load(open(p))
        ev["coverage"]["fuzz"] = summary
        json.dump(ev, open(p, "w"), indent=1)
    except Exception:
        pass

sys.exit(main())
