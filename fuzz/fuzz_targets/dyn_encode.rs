#![no_main]
//! libFuzzer target "dyn_encode": bytes -> structured arguments -> the oracles of the proptest checks
//! (see harness/src/fuzzsupport.rs). A violation panics, which libFuzzer saves as an artefact.
use libfuzzer_sys::fuzz_target;

fuzz_target!(|data: &[u8]| {
    pcv::fuzzsupport::fuzz_entry("dyn_encode", data);
});
