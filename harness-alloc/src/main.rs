//! C14 on the `alloc`-without-`use-std` flavour of postcard-schema (impls/builtins_alloc.rs).
//!
//! usage: pcv-alloc <seed> <cases-per-type> [type-name]
//! prints one JSON object: {"evaluations","nontrivial","per_type":{..},"samples":[..],"failure":null|{..}}
//! exit 0 always (the caller decides), exit 3 on usage errors.

#[path = "../../harness/src/record.rs"]
mod record;

use postcard_schema::schema::owned::OwnedDataModelType;
use postcard_schema::Schema;
use proptest::prelude::*;
use proptest::test_runner::{Config, RngAlgorithm, TestRng, TestRunner};
use record::{conforms, record};
use serde::Serialize;
use serde_json::json;
use std::cell::RefCell;
use std::collections::{BTreeMap, BTreeSet, HashSet};
use std::fmt::Debug;
use std::hash::{Hash, Hasher};

#[derive(Serialize, Schema, Debug, Clone)]
struct Inventory {
    name: String,
    counts: BTreeMap<u16, String>,
    tags: BTreeSet<i64>,
    blob: Vec<u8>,
    nested: BTreeMap<String, Vec<(u8, bool)>>,
}

#[derive(Serialize, Schema, Debug, Clone)]
enum Msg {
    Empty,
    Names(Vec<String>),
    Index(BTreeMap<u8, BTreeMap<i16, bool>>),
    Pair(BTreeSet<u8>, String),
    Named { id: u32, attrs: BTreeMap<String, u64> },
}

#[derive(Serialize, Schema, Debug, Clone)]
struct Wrapper<T>(T, Vec<T>);

struct Out {
    evals: u64,
    nontrivial: HashSet<u64>,
    per_type: BTreeMap<String, u64>,
    samples: Vec<String>,
    failure: Option<serde_json::Value>,
}

fn seed_bytes(seed: u64, name: &str) -> [u8; 32] {
    let mut out = [0u8; 32];
    let mut h = std::collections::hash_map::DefaultHasher::new();
    (seed, name, "pcv-alloc").hash(&mut h);
    let mut x = h.finish() | 1;
    for c in out.chunks_mut(8) {
        // splitmix64
        x = x.wrapping_add(0x9E3779B97F4A7C15);
        let mut z = x;
        z = (z ^ (z >> 30)).wrapping_mul(0xBF58476D1CE4E5B9);
        z = (z ^ (z >> 27)).wrapping_mul(0x94D049BB133111EB);
        c.copy_from_slice(&(z ^ (z >> 31)).to_le_bytes());
    }
    out
}

fn run_type<T, S>(seed: u64, cases: u32, only: Option<&str>, name: &str, strat: S) -> Out
where
    T: Serialize + Schema + Debug,
    S: Strategy<Value = T>,
{
    let mut out = Out { evals: 0, nontrivial: HashSet::new(), per_type: BTreeMap::new(), samples: vec![], failure: None };
    if only.map_or(false, |o| o != name) {
        return out;
    }
    let schema = OwnedDataModelType::from(T::SCHEMA);
    let cfg = Config { cases, failure_persistence: None, max_shrink_iters: 4000, verbose: 0, ..Config::default() };
    let mut runner = TestRunner::new_with_rng(cfg, TestRng::from_seed(RngAlgorithm::ChaCha, &seed_bytes(seed, name)));
    let counting = RefCell::new(true);
    let stats = RefCell::new((0u64, HashSet::<u64>::new(), Vec::<String>::new()));
    let last: RefCell<Option<(String, String)>> = RefCell::new(None);
    let r = runner.run(&strat, |v| {
        let call = record(&v).map_err(|e| TestCaseError::fail(format!("recording failed: {}", e.0)))?;
        let verdict = conforms(&call, &schema);
        if *counting.borrow() {
            let mut s = stats.borrow_mut();
            s.0 += 1;
            let dbg = format!("{:?}", v);
            if dbg.len() > 6 {
                let mut h = std::collections::hash_map::DefaultHasher::new();
                (name, &dbg).hash(&mut h);
                s.1.insert(h.finish());
            }
            if s.2.len() < 2 {
                let d: String = dbg.chars().take(160).collect();
                s.2.push(format!("[alloc-only {}] {} conforms to {}", name, d, schema.to_pseudocode()));
            }
        }
        if let Err(why) = verdict {
            *counting.borrow_mut() = false;
            *last.borrow_mut() = Some((format!("{:?}", v), why.clone()));
            return Err(TestCaseError::fail(why));
        }
        Ok(())
    });
    let (n, nt, samples) = stats.into_inner();
    out.evals += n;
    *out.per_type.entry(name.to_string()).or_insert(0) += n;
    out.nontrivial.extend(nt);
    out.samples.extend(samples);
    if r.is_err() {
        let (v, why) = last.into_inner().unwrap_or_default();
        out.failure = Some(json!({
            "type": name,
            "value": v,
            "why": why,
            "schema": schema.to_pseudocode(),
        }));
    }
    out
}

fn main() {
    let args: Vec<String> = std::env::args().collect();
    if args.len() < 3 {
        eprintln!("usage: pcv-alloc <seed> <cases-per-type> [type-name]");
        std::process::exit(3);
    }
    let seed: u64 = args[1].parse().unwrap_or(0);
    let cases: u32 = args[2].parse().unwrap_or(1000);
    let only = args.get(3).map(|s| s.as_str());
    let mut o = Out { evals: 0, nontrivial: HashSet::new(), per_type: BTreeMap::new(), samples: vec![], failure: None };
    let mut jobs: Vec<Box<dyn FnOnce() -> Out + Send + '_>> = vec![];
    macro_rules! t {
        ($ty:ty) => {
            jobs.push(Box::new(move || run_type::<$ty, _>(seed, cases, only, stringify!($ty), any::<$ty>())))
        };
    }
    // impls/builtins_alloc.rs
    t!(Vec<u8>);
    t!(Vec<(u8, String)>);
    t!(Vec<Vec<i32>>);
    t!(String);
    t!(BTreeMap<u16, String>);
    t!(BTreeMap<String, Vec<u32>>);
    t!(BTreeMap<u8, BTreeMap<i16, bool>>);
    t!(BTreeMap<i64, (u8, u16)>);
    t!(BTreeMap<bool, Option<String>>);
    t!(BTreeMap<char, f32>);
    t!(BTreeSet<i32>);
    t!(BTreeSet<String>);
    t!(BTreeSet<(u8, bool)>);
    t!(Option<Vec<String>>);
    t!(Result<Vec<u8>, String>);
    t!((String, BTreeMap<u8, i128>, BTreeSet<u64>));
    t!([BTreeMap<u8, String>; 2]);
    // core impls in the same flavour
    t!((u8, i16, u32, i64, u128, char));
    t!(Option<Option<u8>>);
    t!([u16; 5]);
    t!(core::ops::Range<u32>);
    t!(core::num::NonZeroU16);
    // derive users holding alloc collections
    jobs.push(Box::new(move || run_type::<Inventory, _>(
        seed,
        cases,
        only,
        "Inventory",
        (any::<String>(), any::<BTreeMap<u16, String>>(), any::<BTreeSet<i64>>(), any::<Vec<u8>>(), any::<BTreeMap<String, Vec<(u8, bool)>>>())
            .prop_map(|(name, counts, tags, blob, nested)| Inventory { name, counts, tags, blob, nested }),
    )));
    jobs.push(Box::new(move || run_type::<Msg, _>(
        seed,
        cases,
        only,
        "Msg",
        prop_oneof![
            Just(Msg::Empty),
            any::<Vec<String>>().prop_map(Msg::Names),
            any::<BTreeMap<u8, BTreeMap<i16, bool>>>().prop_map(Msg::Index),
            (any::<BTreeSet<u8>>(), any::<String>()).prop_map(|(a, b)| Msg::Pair(a, b)),
            (any::<u32>(), any::<BTreeMap<String, u64>>()).prop_map(|(id, attrs)| Msg::Named { id, attrs }),
        ],
    )));
    jobs.push(Box::new(move || run_type::<Wrapper<BTreeMap<u8, String>>, _>(
        seed,
        cases,
        only,
        "Wrapper<BTreeMap<u8, String>>",
        (any::<BTreeMap<u8, String>>(), proptest::collection::vec(proptest::collection::btree_map(any::<u8>(), "[a-z]{0,6}", 0..5), 0..5)).prop_map(|(a, b)| Wrapper(a, b)),
    )));
    let outs: Vec<Out> = std::thread::scope(|sc| {
        let hs: Vec<_> = jobs.into_iter().map(|j| sc.spawn(j)).collect();
        hs.into_iter().map(|h| h.join().expect("pcv-alloc worker")).collect()
    });
    for x in outs {
        o.evals += x.evals;
        o.nontrivial.extend(x.nontrivial);
        o.per_type.extend(x.per_type);
        o.samples.extend(x.samples.into_iter().take(1));
        if o.failure.is_none() {
            o.failure = x.failure;
        }
    }
    o.samples.truncate(8);
    println!(
        "{}",
        json!({
            "evaluations": o.evals,
            "nontrivial": o.nontrivial.len(),
            "per_type": o.per_type,
            "samples": o.samples,
            "failure": o.failure,
        })
    );
}
