#!/usr/bin/env python3
"""Confirm a sub-agent's seeded change in a scratch worktree and file it under /verif/seeded/.

    tools/confirm_seed.py /tmp/seed/C16/_seed_out/1 C16-1

Checks, in /tmp/confirm (a git worktree of /repo at HEAD, own target dir):
  (1) patch applies, `cargo test --workspace --offline` passes with it,
  (2) the demonstration fails with the patch,
  (3) the demonstration passes without it.
Writes /verif/seeded/<name>/{patch.diff, demo/, README.md, meta.json}."""
import json, os, re, shutil, subprocess, sys

WT = "/tmp/confirm"
ENV = dict(os.environ, CARGO_TARGET_DIR=WT + "/target", CARGO_NET_OFFLINE="true")

def sh(cmd, cwd=WT, timeout=3600):
    r = subprocess.run(cmd, shell=True, cwd=cwd, env=ENV, stdout=subprocess.PIPE, stderr=subprocess.STDOUT, text=True, timeout=timeout)
    return r.returncode, r.stdout

def ensure_wt():
    if not os.path.isdir(WT):
        rc, out = sh("git -C /repo worktree add -q --detach %s HEAD" % WT, cwd="/")
        assert rc == 0, out
    else:
        sh("git checkout -q --detach $(git -C /repo rev-parse HEAD) 2>/dev/null; git checkout -- . ; git clean -fdq -e target")

def demo_command(readme):
    text = open(readme).read().replace("\\\n", " ")
    cands = []
    for line in text.splitlines():
        line = line.strip().strip("`").strip()
        m = re.search(r"(cargo\s+(?:\+\w+\s+)?(?:test|run)\b[^`]*)", line)
        if m and ("--test " in m.group(1) or "--manifest-path" in m.group(1) or " -p " in m.group(1) and "--workspace" not in m.group(1)):
            cands.append(re.sub(r"\s+", " ", m.group(1)).strip())
    return cands[0] if cands else None

def main():
    src, name = sys.argv[1], sys.argv[2]
    prop = name.split("-")[0]
    ensure_wt()
    dst = os.path.join("/verif/seeded", name)
    os.makedirs(dst, exist_ok=True)
    for f in ("patch.diff", "README.md"):
        shutil.copy(os.path.join(src, f), os.path.join(dst, f))
    if os.path.isdir(os.path.join(dst, "demo")):
        shutil.rmtree(os.path.join(dst, "demo"))
    shutil.copytree(os.path.join(src, "demo"), os.path.join(dst, "demo"))
    meta = {"property": prop, "name": name, "source": "independent sub-agent given only the property text and a scratch worktree"}
    cmd = demo_command(os.path.join(src, "README.md"))
    meta["demo_cmd"] = cmd
    # where does the demo go?
    demo_files = sorted(os.listdir(os.path.join(src, "demo")))
    crate = None
    if cmd:
        m = re.search(r"-p\s+(\S+)", cmd)
        crate = m.group(1) if m else None
    placed = []
    def place():
        for f in demo_files:
            p = os.path.join(src, "demo", f)
            if os.path.isfile(p) and f.endswith(".rs") and crate:
                d = os.path.join(WT, "source", crate, "tests")
                os.makedirs(d, exist_ok=True)
                shutil.copy(p, os.path.join(d, f))
                placed.append(os.path.join(d, f))
    def unplace():
        for p in placed:
            if os.path.exists(p):
                os.remove(p)
        placed.clear()
    ok = True
    rc, out = sh("git apply --check %s && git apply %s" % (os.path.join(src, "patch.diff"), os.path.join(src, "patch.diff")))
    meta["patch_applies"] = rc == 0
    if rc != 0:
        meta["error"] = out[-400:]
        ok = False
    if ok:
        rc, out = sh("cargo test --workspace --offline 2>&1 | grep -E '^test result|^error' ")
        lines = out.strip().splitlines()
        meta["suite_with_patch"] = "passes" if lines and all(" 0 failed" in l and l.startswith("test result: ok") for l in lines) else "FAILS: " + " | ".join(lines)[:300]
        if cmd is None or crate is None:
            meta["demo"] = "no recognisable demo command in README (manual confirmation needed)"
            ok = False
    if ok:
        place()
        rc1, out1 = sh(cmd + " 2>&1 | tail -30")
        rc1, _ = sh(cmd + " >/dev/null 2>&1")
        meta["demo_with_patch"] = "fails" if rc1 != 0 else "PASSES (unexpected)"
        meta["demo_with_patch_tail"] = out1[-600:]
        unplace()
        sh("git checkout -- .")
        place()
        rc2, _ = sh(cmd + " >/dev/null 2>&1")
        meta["demo_without_patch"] = "passes" if rc2 == 0 else "FAILS (unexpected)"
        unplace()
    sh("git checkout -- . ; git clean -fdq -e target")
    meta["confirmed"] = bool(ok and meta.get("suite_with_patch") == "passes" and meta.get("demo_with_patch") == "fails" and meta.get("demo_without_patch") == "passes")
    # what is needed to manifest: first paragraph after the heading in the README
    txt = open(os.path.join(src, "README.md")).read()
    m = re.search(r"(?is)##\s*What is needed[^\n]*\n(.*?)(\n##|\Z)", txt)
    meta["needs_to_manifest"] = (m.group(1).strip()[:900] if m else txt[:600])
    meta["ran"] = ["git apply patch.diff", "cargo test --workspace --offline (with patch)", cmd, "git checkout -- . ; " + str(cmd)]
    json.dump(meta, open(os.path.join(dst, "meta.json"), "w"), indent=1)
    print(name, "confirmed" if meta["confirmed"] else "NOT CONFIRMED", {k: meta.get(k) for k in ("suite_with_patch", "demo_with_patch", "demo_without_patch", "demo")})

main()
