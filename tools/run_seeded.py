#!/usr/bin/env python3
"""Run the registered checks against every confirmed seeded change under /verif/seeded/.
    tools/run_seeded.py [name-substring ...] [--thorough-on-miss]
For each: git -C /repo apply patch.diff ; ./check <property> quick ; git -C /repo checkout -- .
Records the outcome in seeded/<name>/meta.json ("detected_by") and seeded/RESULTS.md."""
import json, os, subprocess, sys, time, glob
VERIF = os.environ.get("PCV_VERIF", "/verif"); REPO = os.environ.get("PCV_REPO", "/repo"); SEEDS = "/verif/seeded"

def sh(cmd, cwd=None, timeout=7200):
    return subprocess.run(cmd, shell=True, cwd=cwd, stdout=subprocess.PIPE, stderr=subprocess.STDOUT, text=True, timeout=timeout)

def table():
    with open(os.path.join(SEEDS, os.environ.get("PCV_SEED_OUT", "RESULTS.md")), "w") as f:
        f.write("# Seeded changes (written by independent sub-agents from the property text alone)\n\n")
        f.write("| seed | property | confirmed (suite passes / demo fails with / passes without) | detected by | message |\n|---|---|---|---|---|\n")
        for d in sorted(glob.glob(os.path.join(SEEDS, "C*"))):
            m = json.load(open(os.path.join(d, "meta.json")))
            runs = m.get("check_runs", {})
            msg = next((runs[t]["message"] for t in runs if runs[t]["exit"] == 1), "")
            det = m.get("detected_by")
            if not det:
                oth = m.get("reported_by_other_checks") or []
                det = "not by this property's check" + ("; reported by " + ", ".join(o["check"] for o in oth) if oth else "")
                if oth and not msg:
                    msg = oth[0]["message"]
            f.write("| %s | %s | %s | %s | %s |\n" % (m["name"], m["property"], "yes" if m.get("confirmed") else "NO", det, msg.replace("|", "/")[:200]))

def main():
    args = [a for a in sys.argv[1:] if not a.startswith("--")]
    part = [a for a in sys.argv[1:] if a.startswith("--part=")]
    part = tuple(int(x) for x in part[0][7:].split("/")) if part else None
    only = [a[7:] for a in sys.argv[1:] if a.startswith("--only=")]
    thorough = "--thorough-on-miss" in sys.argv
    if "--table" in sys.argv:
        table(); return
    assert sh("git status --porcelain", REPO).stdout.strip() == "", "/repo not clean"
    rows = []
    for di, d in enumerate(sorted(glob.glob(os.path.join(SEEDS, "C*")))):
        name = os.path.basename(d)
        if args and not any(a in name for a in args):
            continue
        if only and not any(name.endswith(o) for o in only):
            continue
        if part and di % part[1] != part[0]:
            continue
        meta = json.load(open(os.path.join(d, "meta.json")))
        prop = meta["property"]
        r = sh("git apply %s" % os.path.join(d, "patch.diff"), REPO)
        if r.returncode != 0:
            rows.append((name, "patch does not apply: " + r.stdout[:100])); sh("git checkout -- .", REPO); continue
        out = {}
        for tier in (["quick", "thorough"] if thorough else ["quick"]):
            t0 = time.time()
            r = sh("./check %s %s" % (prop, tier), VERIF)
            msg = [l.strip() for l in r.stdout.splitlines() if l.startswith("  ")]
            out[tier] = {"exit": r.returncode, "wall_s": round(time.time() - t0, 1), "message": (msg[0][:300] if msg and r.returncode == 1 else "")}
            if r.returncode == 1:
                break
        det = next((t for t in out if out[t]["exit"] == 1), None)
        other = []
        if det is None and "--cross" in sys.argv:
            # which *other* property's check reports this change (recorded separately; not counted as detection)
            for k in range(1, 21):
                q = "C%02d" % k
                if q == prop:
                    continue
                r = sh("./check %s quick" % q, VERIF)
                if r.returncode == 1:
                    msg = [l.strip() for l in r.stdout.splitlines() if l.startswith("  ")]
                    other.append({"check": "./check %s quick" % q, "message": (msg[0][:200] if msg else "")})
        meta["reported_by_other_checks"] = other
        sh("git checkout -- .", REPO)
        sh("rm -rf %s/replays/*/found" % VERIF)
        meta["detected_by"] = ("./check %s %s" % (prop, det)) if det else None
        meta["check_runs"] = out
        json.dump(meta, open(os.path.join(d, "meta.json"), "w"), indent=1)
        rows.append((name, json.dumps(out)))
        print(name, "DETECTED by " + det if det else "MISSED", out, flush=True)
    assert sh("git status --porcelain", REPO).stdout.strip() == ""
    table()

main()
