#!/usr/bin/env python3
"""Run EVERY registered quick check against every property-preserving change under /verif/benign/ (false-alarm probe).
    tools/run_benign.py [--part=i/n] [name-substring ...]
For each: git -C $PCV_REPO apply patch.diff ; ./check C01..C20 quick ; git checkout -- .   Records the alarms (if any) in
benign/<name>/meta.json and benign/RESULTS.md. An alarm is then adjudicated by hand (DESIGN.md section 14)."""
import glob, json, os, subprocess, sys, time
VERIF = os.environ.get("PCV_VERIF", "/verif"); REPO = os.environ.get("PCV_REPO", "/repo"); DIR = "/verif/benign"

def sh(cmd, cwd=None, timeout=7200):
    return subprocess.run(cmd, shell=True, cwd=cwd, stdout=subprocess.PIPE, stderr=subprocess.STDOUT, text=True, timeout=timeout)

def table():
    with open(os.path.join(DIR, "RESULTS.md"), "w") as f:
        f.write("# Property-preserving changes (false-alarm probes) - every quick check run against each\n\n")
        f.write("| change | written for | suite passes | checks that raised an alarm | adjudication |\n|---|---|---|---|---|\n")
        for d in sorted(glob.glob(os.path.join(DIR, "C*"))):
            m = json.load(open(os.path.join(d, "meta.json")))
            al = m.get("alarms")
            al_s = "not run" if al is None else ("none (20/20 silent)" if not al else "; ".join("%s: %s" % (a["check"], a["message"][:160].replace("|", "/")) for a in al))
            f.write("| %s | %s | %s | %s | %s |\n" % (m["name"], m["property"], "yes" if m.get("confirmed") else "NO", al_s, m.get("adjudication", "")))

def main():
    args = [a for a in sys.argv[1:] if not a.startswith("--")]
    part = [a for a in sys.argv[1:] if a.startswith("--part=")]
    part = tuple(int(x) for x in part[0][7:].split("/")) if part else None
    if "--table" in sys.argv:
        table(); return
    assert sh("git status --porcelain", REPO).stdout.strip() == "", "repo not clean"
    for di, d in enumerate(sorted(glob.glob(os.path.join(DIR, "C*")))):
        name = os.path.basename(d)
        if args and not any(a in name for a in args):
            continue
        if part and di % part[1] != part[0]:
            continue
        meta = json.load(open(os.path.join(d, "meta.json")))
        if not meta.get("confirmed"):
            continue
        r = sh("git apply %s" % os.path.join(d, "patch.diff"), REPO)
        if r.returncode != 0:
            print(name, "patch does not apply"); sh("git checkout -- .", REPO); continue
        alarms, other = [], []
        t0 = time.time()
        for k in range(1, 21):
            q = "C%02d" % k
            r = sh("./check %s quick" % q, VERIF)
            if r.returncode == 1:
                msg = [l.strip() for l in r.stdout.splitlines() if l.startswith("  ")]
                alarms.append({"check": q, "message": msg[0][:400] if msg else ""})
            elif r.returncode != 0:
                other.append({"check": q, "exit": r.returncode, "tail": r.stdout[-300:]})
        sh("git checkout -- .", REPO)
        sh("rm -rf %s/replays/*/found" % VERIF)
        meta["alarms"] = alarms
        meta["inconclusive"] = other
        meta["wall_s"] = round(time.time() - t0, 1)
        json.dump(meta, open(os.path.join(d, "meta.json"), "w"), indent=1)
        print(name, "SILENT" if not alarms else "ALARM " + json.dumps(alarms)[:600], ("inconclusive: " + json.dumps(other)[:300]) if other else "", flush=True)
    assert sh("git status --porcelain", REPO).stdout.strip() == ""
    table()
main()
