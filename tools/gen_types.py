#!/usr/bin/env python3
"""Emit Rust source for a corpus of random derive-using types (DESIGN.md section 3.11).

    python3 tools/gen_types.py --seed 0 --n 160 > harness/src/corpus/generated.rs

Every type gets #[derive(Serialize, Deserialize, Schema, Debug, Clone)] (+ MaxSize from the in-repo
postcard-derive when all its fields admit it), a `Gen` impl building values from a byte source, and
a registry entry. No serde attributes that change representation are used."""
import argparse, random

LEAVES = ["bool", "u8", "u16", "u32", "u64", "u128", "i8", "i16", "i32", "i64", "i128", "f32", "f64", "char", "()"]
FIELD_NAMES = ["a", "b", "c", "x", "y", "z", "id", "len", "data", "kind", "q", "qq", "k", "e", "m", "value", "flag", "count", "r#type", "r#in"]
VARIANT_NAMES = ["Alpha", "Beta", "Gamma", "Delta", "Eps", "Zeta", "Eta", "Theta", "A", "B", "C", "Ok", "Err", "None", "Some", "Q", "Kq"]


class T:
    """a type expression with the attributes the registry needs"""
    def __init__(self, rust, maxsize=True, json=True, nullable=False, generic=False, strict=True):
        self.rust, self.maxsize, self.json, self.nullable, self.generic, self.strict = rust, maxsize, json, nullable, generic, strict


def leaf(r):
    t = r.choice(LEAVES)
    return T(t, nullable=(t == "()"))


def ty(r, depth, defined, generic_param=None):
    """random field type"""
    if generic_param and r.random() < 0.35:
        return T(generic_param, generic=True)
    roll = r.random()
    if depth >= 3 or roll < 0.40:
        return leaf(r)
    if roll < 0.50:
        i = ty(r, depth + 1, defined, generic_param)
        return T("Option<%s>" % i.rust, i.maxsize, i.json and not i.nullable, True, i.generic, i.strict)
    if roll < 0.58:
        i = ty(r, depth + 1, defined, generic_param)
        n = r.choice([0, 1, 2, 3, 4])
        return T("[%s; %d]" % (i.rust, n), i.maxsize, i.json and n != 1, False, i.generic, i.strict)
    if roll < 0.68:
        k = r.choice([1, 2, 2, 2, 3, 3])
        parts = [ty(r, depth + 1, defined, generic_param) for _ in range(k)]
        rust = "(%s,)" % parts[0].rust if k == 1 else "(%s)" % ", ".join(p.rust for p in parts)
        return T(rust, all(p.maxsize for p in parts), all(p.json for p in parts) and k != 1, False, any(p.generic for p in parts), all(p.strict for p in parts))
    if roll < 0.75:
        i = ty(r, depth + 1, defined, generic_param)
        return T("Vec<%s>" % i.rust, False, i.json, False, i.generic, i.strict)
    if roll < 0.79:
        return T("String", False, True)
    if roll < 0.87:
        i = ty(r, depth + 1, defined, generic_param)
        n = r.choice([0, 1, 3, 8])
        return T("heapless07::Vec<%s, %d>" % (i.rust, n), i.maxsize, i.json, False, i.generic, False)
    if roll < 0.90:
        return T("heapless07::String<%d>" % r.choice([0, 1, 5, 16]), True, True, False, False, False)
    if roll < 0.93:
        i = ty(r, depth + 1, defined, generic_param)
        return T("std::collections::BTreeMap<String, %s>" % i.rust, False, i.json, False, i.generic, False)
    if defined:
        d = r.choice(defined)
        return T(d["use"], d["maxsize"], d["json"], d["nullable"], False, d["strict"])
    return leaf(r)


def fields_named(r, k, defined, gp):
    names = r.sample(FIELD_NAMES, k)
    return [(n, ty(r, 0, defined, gp)) for n in names]


def gen_item(r, idx, defined, out):
    name = "Gen%d" % idx
    generic = r.random() < 0.15
    gp = "T" if generic else None
    is_enum = r.random() < 0.5
    fields_used = []
    lines = []
    gen_body = ""
    ext_body = ""
    nullable = False
    if not is_enum:
        form = r.choice(["unit", "newtype", "tuple", "named", "named", "named"])
        if generic and form == "unit":
            form = "named"
        if form == "unit":
            decl = "pub struct %s;" % name
            gen_body = name
            ext_body = "vec![%s]" % name
            nullable = True
        elif form == "newtype":
            f = ty(r, 0, defined, gp)
            fields_used = [f]
            decl = "pub struct %s%s(pub %s);" % (name, "<T>" if generic else "", f.rust)
            gen_body = "%s(Gen::gen(s))" % name
            ext_body = "vec![%s(ext(0)), %s(ext(1))]" % (name, name)
            nullable = f.nullable
        elif form == "tuple":
            k = r.choice([0, 2, 2, 3, 4])
            fs = [ty(r, 0, defined, gp) for _ in range(k)]
            fields_used = fs
            decl = "pub struct %s%s(%s);" % (name, "<T>" if generic else "", ", ".join("pub " + f.rust for f in fs))
            gen_body = "%s(%s)" % (name, ", ".join("Gen::gen(s)" for _ in fs))
            ext_body = "vec![%s(%s), %s(%s)]" % (name, ", ".join("ext(0)" for _ in fs), name, ", ".join("ext(1)" for _ in fs))
        else:
            k = r.choice([0, 1, 2, 3, 4, 6])
            fs = fields_named(r, k, defined, gp)
            fields_used = [f for _, f in fs]
            decl = "pub struct %s%s { %s }" % (name, "<T>" if generic else "", ", ".join("pub %s: %s" % (n, f.rust) for n, f in fs))
            gen_body = "%s { %s }" % (name, ", ".join("%s: Gen::gen(s)" % n for n, _ in fs))
            ext_body = "vec![%s { %s }, %s { %s }]" % (
                name, ", ".join("%s: ext(0)" % n for n, _ in fs), name, ", ".join("%s: ext(1)" % n for n, _ in fs))
    else:
        nv = r.choice([1, 2, 3, 3, 4, 5, 8, 8, 17, 19, 33, 40])
        if nv <= len(VARIANT_NAMES):
            vnames = r.sample(VARIANT_NAMES, nv)
        else:
            vnames = r.sample(VARIANT_NAMES, len(VARIANT_NAMES)) + ["W%d" % k for k in range(nv - len(VARIANT_NAMES))]
            r.shuffle(vnames)
        vdecls, arms, exts = [], [], []
        for vi, vn in enumerate(vnames):
            form = r.choice(["unit", "unit", "newtype", "tuple", "named"]) if nv <= 8 or r.random() < 0.2 else "unit"
            if form == "unit":
                vdecls.append(vn)
                arms.append("%d => %s::%s," % (vi, name, vn))
                exts.append("%s::%s" % (name, vn))
            elif form == "newtype":
                f = ty(r, 0, defined, gp)
                fields_used.append(f)
                vdecls.append("%s(%s)" % (vn, f.rust))
                arms.append("%d => %s::%s(Gen::gen(s))," % (vi, name, vn))
                exts += ["%s::%s(ext(0))" % (name, vn), "%s::%s(ext(1))" % (name, vn)]
            elif form == "tuple":
                k = r.choice([0, 2, 3])
                fs = [ty(r, 0, defined, gp) for _ in range(k)]
                fields_used += fs
                vdecls.append("%s(%s)" % (vn, ", ".join(f.rust for f in fs)))
                arms.append("%d => %s::%s(%s)," % (vi, name, vn, ", ".join("Gen::gen(s)" for _ in fs)))
                exts.append("%s::%s(%s)" % (name, vn, ", ".join("ext(0)" for _ in fs)))
            else:
                k = r.choice([0, 1, 2, 3])
                fs = fields_named(r, k, defined, gp)
                fields_used += [f for _, f in fs]
                vdecls.append("%s { %s }" % (vn, ", ".join("%s: %s" % (n, f.rust) for n, f in fs)))
                arms.append("%d => %s::%s { %s }," % (vi, name, vn, ", ".join("%s: Gen::gen(s)" % n for n, _ in fs)))
                exts.append("%s::%s { %s }" % (name, vn, ", ".join("%s: ext(0)" % n for n, _ in fs)))
        if generic and not any(f.generic for f in fields_used):
            generic, gp = False, None
        decl = "pub enum %s%s { %s }" % (name, "<T>" if generic else "", ", ".join(vdecls))
        arms[-1] = "_" + arms[-1][arms[-1].index(" =>"):]
        gen_body = "match s.below(%d) { %s }" % (nv, " ".join(arms))
        ext_body = "vec![%s]" % ", ".join(exts)
    if generic and not is_enum:
        if not any(f.generic for f in fields_used):
            generic, gp = False, None
            decl = decl.replace("%s<T>" % name, name)
    maxsize = all(f.maxsize for f in fields_used)
    json = all(f.json for f in fields_used)
    strict = all(f.strict for f in fields_used)
    derives = "Serialize, Deserialize, Schema, Debug, Clone" + (", MaxSize" if maxsize else "")
    out.append("#[derive(%s)]" % derives)
    out.append("#[allow(non_camel_case_types, dead_code)]")
    out.append(decl)
    if generic:
        out.append("impl<T: Gen> Gen for %s<T> {" % name)
    else:
        out.append("impl Gen for %s {" % name)
    out.append("    fn gen(s: &mut Src) -> Self { %s }" % gen_body)
    out.append("    fn extremes() -> Vec<Self> { %s }" % ext_body)
    out.append("}")
    out.append("")
    if generic:
        inst = r.choice(["u16", "Option<i8>", "(u8, bool)", "char", "i64"])
        use = "%s<%s>" % (name, inst)
        if inst == "Option<i8>":
            json = False
    else:
        use = name
    defined.append({"use": use, "maxsize": maxsize, "json": json, "nullable": nullable, "strict": strict})
    return use, maxsize, json, strict


def main():
    ap = argparse.ArgumentParser()
    ap.add_argument("--seed", type=int, default=0)
    ap.add_argument("--n", type=int, default=160)
    a = ap.parse_args()
    r = random.Random(a.seed * 7919 + 17)
    out = []
    out.append("//! GENERATED by tools/gen_types.py --seed %d --n %d. Do not edit." % (a.seed, a.n))
    out.append("#![allow(clippy::all, unused_imports, unused_parens)]")
    out.append("use super::{base, CorpusType, Gen, Src};")
    out.append("use postcard_derive::MaxSize;")
    out.append("use postcard_schema::Schema;")
    out.append("use serde::{Deserialize, Serialize};")
    out.append("")
    out.append("fn ext<T: Gen>(i: usize) -> T { let e = T::extremes(); let k = e.len().max(1); e.into_iter().nth(i % k).expect(\"no extremes\") }")
    out.append("")
    out.append("pub const SEED: u64 = %d;" % a.seed)
    out.append("")
    defined, reg = [], []
    for i in range(a.n):
        use, maxsize, json, strict = gen_item(r, i, defined, out)
        line = "    v.push(base::<%s>(\"%s\").schema::<%s>()" % (use, use.replace('"', ''), use)
        if maxsize:
            line += ".max::<%s>(false)" % use
        line += ".de::<%s>()" % use
        if json:
            line += ".json()"
        if strict:
            line += ".strict()"
        reg.append(line + ");")
    out.append("pub fn types() -> Vec<CorpusType> {")
    out.append("    let mut v: Vec<CorpusType> = vec![];")
    out += reg
    out.append("    v")
    out.append("}")
    print("\n".join(out))


main()
