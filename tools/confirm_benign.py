#!/usr/bin/env python3
"""File a property-preserving change written by a sub-agent under /verif/benign/<name>/ after checking, in the scratch
worktree /tmp/confirm, that it applies and that the repository's own suite passes with it.
    tools/confirm_benign.py /tmp/seed/C05/_seed_out/B1 C05-B1"""
import json, os, shutil, subprocess, sys
WT = "/tmp/confirm"
ENV = dict(os.environ, CARGO_TARGET_DIR=WT + "/target", CARGO_NET_OFFLINE="true")

def sh(cmd, cwd=WT, timeout=3600):
    r = subprocess.run(cmd, shell=True, cwd=cwd, env=ENV, stdout=subprocess.PIPE, stderr=subprocess.STDOUT, text=True, timeout=timeout)
    return r.returncode, r.stdout

def main():
    src, name = sys.argv[1], sys.argv[2]
    if not os.path.isdir(WT):
        rc, out = sh("git -C /repo worktree add -q --detach %s HEAD" % WT, cwd="/")
        assert rc == 0, out
    sh("git checkout -q --detach $(git -C /repo rev-parse HEAD) 2>/dev/null; git checkout -- . ; git clean -fdq -e target")
    dst = os.path.join("/verif/benign", name)
    os.makedirs(dst, exist_ok=True)
    for f in ("patch.diff", "README.md"):
        shutil.copy(os.path.join(src, f), os.path.join(dst, f))
    meta = {"property": name.split("-")[0], "name": name,
            "source": "independent sub-agent asked for a realistic change that keeps the property true (false-alarm probe)"}
    rc, out = sh("git apply --check %s && git apply %s" % (os.path.join(src, "patch.diff"), os.path.join(src, "patch.diff")))
    meta["patch_applies"] = rc == 0
    if rc == 0:
        rc, out = sh("cargo test --workspace --offline 2>&1 | grep -E '^test result|^error' ")
        lines = out.strip().splitlines()
        meta["suite_with_patch"] = "passes" if lines and all(" 0 failed" in l and l.startswith("test result: ok") for l in lines) else "FAILS: " + " | ".join(lines)[:300]
    sh("git checkout -- . ; git clean -fdq -e target")
    meta["confirmed"] = bool(meta.get("patch_applies") and meta.get("suite_with_patch") == "passes")
    json.dump(meta, open(os.path.join(dst, "meta.json"), "w"), indent=1)
    print(name, "confirmed" if meta["confirmed"] else "NOT CONFIRMED", meta.get("suite_with_patch"))
main()
