#!/bin/sh
# Build everything the registered commands need, offline, from files on disk only.
set -e
cd "$(dirname "$0")/.."
export CARGO_NET_OFFLINE=true
(cd harness && cargo build --release --offline)
(cd harness-alloc && cargo build --release --offline)
if false; then
  sh fuzz/build.sh || echo "fuzz targets not built (thorough-tier fuzz phase will be skipped)"
fi
