#!/bin/sh
# Build everything the registered commands need, offline, from files on disk only.
set -e
cd "$(dirname "$0")/.."
export CARGO_NET_OFFLINE=true
# builds harness/ and harness-alloc/ (release, offline) and records the content hash of /repo they were built from
./check --build
if false; then
  sh fuzz/build.sh || echo "fuzz targets not built (thorough-tier fuzz phase will be skipped)"
fi
