#!/usr/bin/env python3
"""Regenerate /verif/MANIFEST.json. Edit DONE / TEXT below when a property's check changes."""
import json, os
V = os.path.dirname(os.path.dirname(os.path.abspath(__file__)))
props = [json.loads(l) for l in open(os.path.join(V, "properties.jsonl"))]

TECH = {
 "C01": "proptest over generated (type,value) trees + exhaustive scalars; round-trip oracle across all encode/decode entry points",
 "C02": "proptest + exhaustive u16/i16 + count-boundary sweep; differential against a reference encoder written from the wire-format spec, and against a schema-free wire reference over the recorded serde call tree of every corpus type",
 "C03": "exhaustive short inputs + structured mutation families + proptest; differential against a reference decoder written from the spec",
 "C04": "proptest + adversarial-length mutation + exhaustive UTF-8 boundary grid with guard pages and a counting allocator (with a ceiling); totality / span / allocation-bound oracles, reader deserializers reused after errors",
 "C05": "proptest x full capacity sweep on guard-paged buffers; threshold oracle against reference outputs",
 "C06": "exhaustive small-alphabet messages + boundary families + proptest; differential against a reference COBS encoder, inverse check",
 "C07": "exhaustive small-alphabet inputs + corruption families + proptest on guard-paged buffers; differential against reference COBS+wire decoders",
 "C08": "model-based testing over operation histories (all chunkings of short streams, all cut pairs, random); reference model + state hook",
 "C09": "model-based testing over operation histories incl. overflow/garbage; history invariants + iteration bound",
 "C10": "proptest + exhaustive bit-flip/burst corruption families; bit-serial reference CRC, converse oracle on every accepted input",
 "C11": "proptest over schedules x fault injection (hard, EOF, Interrupted, transient) at every offset x every scratch size x hostile length prefixes, plus a payload-length sweep on the writer side; slice path as reference",
 "C12": "proptest / enumeration of extremes over built-in and derived types; size-bound and tightness oracle",
 "C13": "exhaustive 16-bit + structured + proptest; byte-exact oracle by shifting",
 "C14": "proptest over values of a type corpus (incl. a second build flavour: postcard-schema with alloc but without use-std, run by the pcv-alloc binary); recorded serializer call tree checked against the schema + schema-driven reference reader",
 "C15": "proptest over schema trees; borrowed/owned differential + independently built expected value",
 "C16": "proptest over schema trees x single-node mutations; const vs run-time hasher vs reference FNV-1a stream",
 "C17": "proptest over JSON-faithful (type,value) pairs; differential against the static encoder and serde_json",
 "C18": "proptest over schemas x bytes/JSON incl. near-miss inputs with a counting allocator; totality and re-encode oracles",
 "C19": "proptest over schema trees; reference reachability set and name-rendering oracle",
 "C20": "proptest over values x 12 flavour stacks x 3 storages + recording user flavours; composed reference transforms",
}
FUZZ = {}

def done():
    src = open(os.path.join(V, "harness", "src", "props", "mod.rs")).read()
    return sorted(p["id"] for p in props if 'id: "%s"' % p["id"] in src)

def main():
    d = done()
    m = {
     "version": 1,
     "setup_cmd": "cd /verif && ./tools/setup.sh",
     "hooks": {
       "guard": "cargo feature verif-hooks (crates postcard and postcard-schema)",
       "enable": "harness/Cargo.toml enables features = [\"verif-hooks\"] on the path dependencies ../../repo/source/postcard and ../../repo/source/postcard-schema; every ./check rebuilds them from /repo's working tree (cargo's timestamp rule, plus a sha256 over the crates' sources that forces a rebuild whenever the content differs from the last build)",
       "baseline_off_cmd": "cd /repo && cargo test --workspace --no-fail-fast --offline",
       "source_commits": ["8ff2912", "fd7aa06"],
       "add_only": True,
     },
     "engines": [
       {"name": "pcv", "path": "harness", "serves_properties": d,
        "kind_free_text": "Rust binary: proptest strategies, exhaustive enumerators, model-based history drivers, reference implementations (wire codec, COBS, CRC, FNV stream), guard-page buffers, counting allocator; one module per property"},
       {"name": "pcv-alloc", "path": "harness-alloc", "serves_properties": ["C14"],
        "kind_free_text": "Rust binary built against postcard-schema with features alloc+derive but without use-std (the configuration that compiles impls/builtins_alloc.rs); proptest + the harness' recording serializer and conformance relation; started by `pcv run C14`"},
       {"name": "libfuzzer-targets", "path": "fuzz", "serves_properties": ["C03", "C04", "C07", "C08", "C09", "C10", "C15", "C16", "C18", "C19"],
        "kind_free_text": "cargo-fuzz / libFuzzer targets (ASan) that decode the fuzzer's bytes into structured arguments and run the same oracle functions as the proptest checks; run by fuzz/campaign.py at the end of a clean thorough tier"},
     ],
     "checks": [],
     "notes": "See DESIGN.md. ./check <ID> <quick|thorough> rebuilds the harness against /repo's working tree and runs it; ./check <ID> --replay <file> replays one saved case. Exit 0 ok, 1 VIOLATION, 2 inconclusive.",
     "not_applicable": [],
    }
    for p in props:
        pid = p["id"]
        if pid in d:
            m["checks"].append({
              "property_id": pid,
              "quick_cmd": "./check %s quick" % pid,
              "thorough_cmd": "./check %s thorough" % pid,
              "evidence_file": "/verif/evidence/%s.json" % pid,
              "replay_cmd_template": "./check %s --replay {path}" % pid,
              "engine": "pcv",
              "level_claimed": {"category": "exploration",
                "text": "generated-input search (proptest, exhaustive finite sub-domains, model-based histories) against an explicit oracle; finds counterexamples and shrinks them, never proves absence. Right level: the property quantifies over inputs/histories with an executable oracle.",
                "design_ref": "DESIGN.md section 5, " + pid},
              "level_note": "trusted: harness serde adapters and reference implementations (self-tested on the spec's / catalogue's worked examples), proptest; hangs/OOM are exit 2, not violations",
              "technique": TECH[pid],
            })
        else:
            m["not_applicable"].append({"property_id": pid, "reason": "check not built yet (in progress; design in DESIGN.md section 5)"})
    json.dump(m, open(os.path.join(V, "MANIFEST.json"), "w"), indent=1)
    print("claimed:", d)

main()
